#!/usr/bin/env python3
"""Print the prompt handed to a fresh sub-agent that seeds a property-breaking change (developer aid, not a check)."""
import json, sys
pid = sys.argv[1]
n = sys.argv[2] if len(sys.argv) > 2 else "2"
extra = sys.argv[3] if len(sys.argv) > 3 else ""
for l in open('/verif/properties.jsonl'):
    p = json.loads(l)
    if p['id'] == pid:
        break
print(f"""You are helping test a verification effort by acting as a source of realistic regressions.

You work ONLY inside the scratch git worktree /tmp/mutwt/{pid} (a checkout of the Rust project tsiemens/acb: a CLI that computes Canadian adjusted cost base / capital gains from transaction CSVs, with broker statement importers). Do not read or touch /repo or /verif. Write results only under /tmp/mutout/{pid}/. The sandbox has no network; use `cargo ... --offline`. To avoid a cold dependency build you may first `cp -r /repo/target /tmp/mutwt/{pid}/target` (reading that one directory is allowed) and build with CARGO_TARGET_DIR=/tmp/mutwt/{pid}/target.

PROPERTY ({p['id']}: {p['title']}):
{p['statement']}
It is quantified over: {p['quantifier']['text']}

TASK: produce {n} distinct, realistic source changes (the kind a maintainer could make by mistake or in a plausible refactor: an off-by-one, a wrong variable, a dropped case, a changed comparison, a reordered step, two sites that each look fine alone) each of which BREAKS this property while the project still compiles and the existing test suite still passes (`cargo test --offline`; the test sample_files_test::test_sample_csv_file_validity already fails on the unchanged tree and is to be ignored). Prefer changes that need something specific to manifest (a particular multi-step sequence of transactions or runs, an unusual but valid input, a particular date offset, a crash/fault at a particular point, several affiliates/securities, two cooperating sites) rather than changes that ordinary use would expose at once. Each change must be small (a few lines), must not touch tests, and must differ in mechanism from the others. {extra}

For each change k = 1..{n}, create /tmp/mutout/{pid}/k/ containing:
  - patch.diff : `git diff` against the worktree HEAD; must apply with `git apply` on a clean checkout.
  - a demonstration: either demo_test.rs (a Rust integration test to be dropped into tests/ of the project, using only the crate's public API and `acb = {{ features = ["testlib"] }}` as the existing tests do) or demo.sh (a shell script taking the path to the built `acb`-family binaries directory as $1 and using only temp files), which FAILS (non-zero / test failure) with the change applied and PASSES without it. The demonstration should state in a comment what correct output is and why.
  - meta.json : {{"property": "{pid}", "title": ..., "mechanism": what was changed and why it breaks the property, "needs_to_manifest": the specific input/sequence/condition required, "files_touched": [...], "demo": file name and how to run it, "commands_run": [the commands you ran and their outcome]}}.

You must verify all of this yourself for each change: (1) with the patch: `cargo build --offline` succeeds and the full existing suite passes (same single known failure only); (2) with the patch the demonstration fails; (3) without the patch the demonstration passes. Discard any change that fails one of these and replace it with another. When finished, restore the worktree to a clean state (`git checkout -- . && git clean -fd -e target`), and reply with a short list of the changes you kept (one line each) — nothing else is needed.""")
