#!/usr/bin/env python3
"""Shared machinery of /verif/bin/check: building, running TLC (model checking and trace
validation), driving the Rust harness, known findings, evidence files.

Exit codes used by checks: 0 held (KNOWN-FINDING lines allowed), 1 VIOLATION, 2 tool error."""
import fcntl
import json
import os
import re
import shutil
import subprocess
import sys
import time
from concurrent.futures import ThreadPoolExecutor

ROOT = os.path.dirname(os.path.dirname(os.path.abspath(__file__)))
SPEC = os.path.join(ROOT, "spec")
HARNESS = os.path.join(ROOT, "harness")
BIN = os.path.join(HARNESS, "target", "debug", "acbverif")
JAR = "/opt/veriftools/tla/tla2tools.jar"
CP = JAR + ":/opt/veriftools/tla/CommunityModules-deps.jar"
TRACE_JAVA_OPTS = "-Xss1g -Dtlc2.tool.queue.IStateQueue=StateDeque"


class ToolError(Exception):
    pass


def log(*a):
    print(*a, flush=True)


def sh(cmd, timeout=None, env=None, cwd=None, stdout_path=None):
    e = dict(os.environ)
    if env:
        e.update(env)
    t0 = time.time()
    try:
        if stdout_path:
            with open(stdout_path, "w") as f:
                p = subprocess.run(cmd, cwd=cwd, env=e, stdout=f, stderr=subprocess.STDOUT, timeout=timeout)
            out = ""
        else:
            p = subprocess.run(cmd, cwd=cwd, env=e, stdout=subprocess.PIPE, stderr=subprocess.STDOUT, timeout=timeout)
            out = p.stdout.decode("utf-8", "replace")
        return p.returncode, out, time.time() - t0
    except subprocess.TimeoutExpired:
        return 124, "TIMEOUT", time.time() - t0


def workdir(pid, sub=None, clean=False):
    d = os.path.join(ROOT, "work", pid)
    if sub:
        d = os.path.join(d, sub)
    if clean and os.path.isdir(d):
        shutil.rmtree(d, ignore_errors=True)
    os.makedirs(d, exist_ok=True)
    return d


def build():
    """(Re)build the TLC override and the harness against /repo's current working tree."""
    os.makedirs(os.path.join(ROOT, "work"), exist_ok=True)
    with open(os.path.join(ROOT, "work", ".build.lock"), "w") as lk:
        fcntl.flock(lk, fcntl.LOCK_EX)
        src = os.path.join(SPEC, "Rat.java")
        cls = os.path.join(SPEC, "Rat.class")
        if not os.path.exists(cls) or os.path.getmtime(cls) < os.path.getmtime(src):
            rc, out, _ = sh(["javac", "-cp", JAR, "-d", SPEC, src], timeout=120)
            if rc != 0:
                raise ToolError("javac Rat.java failed:\n" + out)
        # RatDef is a verbatim, override-free copy of Rat's definitions
        rat = open(os.path.join(SPEC, "Rat.tla")).read().replace("MODULE Rat -", "MODULE RatDef ", 1)
        p = os.path.join(SPEC, "RatDef.tla")
        if not os.path.exists(p) or open(p).read() != rat:
            open(p, "w").write(rat)
        lock_src = "/repo/Cargo.lock"
        rc, out, dt = sh(["cargo", "build", "--offline"], cwd=HARNESS, timeout=1800,
                         env={"CARGO_NET_OFFLINE": "true"})
        if rc != 0:
            raise ToolError("harness build failed (does /repo still compile?):\n" + out[-4000:])
        return dt


def harness(args, timeout=1800):
    # (the code under test chats on stderr - "Fetching USD/CAD exchange rates ..." - keep it out of the logs)
    e = dict(os.environ)
    t0 = time.time()
    try:
        p = subprocess.run([BIN] + args, stdout=subprocess.PIPE, stderr=subprocess.DEVNULL, timeout=timeout, env=e)
        rc, out, dt = p.returncode, p.stdout.decode("utf-8", "replace"), time.time() - t0
    except subprocess.TimeoutExpired:
        rc, out, dt = 124, "TIMEOUT", time.time() - t0
    if rc != 0:
        raise ToolError("harness %s failed rc=%s:\n%s" % (args[0], rc, out[-3000:]))
    return out


# ---------------------------------------------------------------------------------------------
# TLC
# ---------------------------------------------------------------------------------------------
def _decode_tlc_string(line, tag):
    """PrintT("@@TAG {json}") prints the TLC string in quotes with \\" and \\\\ escapes."""
    i = line.find('"@@' + tag + " ")
    if i < 0:
        return None
    s = line[i:].rstrip()
    try:
        inner = json.loads(s)  # TLC's escapes are JSON-compatible for what we emit
    except Exception:
        inner = s.strip('"').replace('\\"', '"').replace("\\\\", "\\")
    return json.loads(inner[len(tag) + 3:])


def tlc_stats(text):
    st = {"generated": 0, "distinct": 0, "depth": 0}
    m = re.findall(r"(\d+) states generated, (\d+) distinct states found", text)
    if m:
        st["generated"], st["distinct"] = int(m[-1][0]), int(m[-1][1])
    m = re.findall(r"depth of the complete state graph search is (\d+)", text)
    if m:
        st["depth"] = int(m[-1])
    return st


def tlc_coverage(text):
    cov = {}
    for m in re.finditer(r"^<(\w+) line \d+, col \d+ to line \d+, col \d+ of module (\w+)>: (\d+):(\d+)", text, re.M):
        cov[m.group(2) + "!" + m.group(1)] = cov.get(m.group(2) + "!" + m.group(1), 0) + int(m.group(4))
    return cov


def run_mc(pid, name, module, cfg_text, workers=8, timeout=900, coverage=False, env=None, keep_cases=True):
    """Model-check spec/<module>.tla with the given cfg; returns stats, emitted cases, errors."""
    d = workdir(pid, "mc_" + name, clean=True)
    cfg = os.path.join(d, name + ".cfg")
    open(cfg, "w").write(cfg_text)
    outp = os.path.join(d, "tlc.out")
    # (the thorough tiers ask for coverage; their alphabets need a larger heap)
    cmd = ["java", "-XX:+UseParallelGC", "-Xmx28g" if coverage else "-Xmx8g", "-cp", CP, "tlc2.TLC", "-workers", str(workers),
           "-metadir", os.path.join(d, "md"), "-cleanup", "-noGenerateSpecTE", "-config", cfg]
    # TLC's -coverage makes the recursive operators of these specifications (evaluated through the Rat override)
    # an order of magnitude slower - the portfolio models went from seconds to more than 25 minutes - so it is
    # collected only on request
    if coverage and os.environ.get("VERIF_COVERAGE") == "1":
        cmd += ["-coverage", "1"]
    cmd += [os.path.join(SPEC, module + ".tla")]
    rc, _, dt = sh(cmd, timeout=timeout, cwd=SPEC, env=env, stdout_path=outp)
    cases = os.path.join(d, "cases.ndjson")
    n_cases = 0
    rest = []
    with open(outp, errors="replace") as f, open(cases, "w") as cf:
        for line in f:
            if '"@@CASE ' in line:
                if keep_cases:
                    c = _decode_tlc_string(line, "CASE")
                    n_cases += 1
                    c["id"] = "%s-%d" % (c.get("id", name), n_cases)
                    if isinstance(c.get("opening"), list):
                        c["opening"] = {}
                    cf.write(json.dumps(c) + "\n")
                else:
                    n_cases += 1
            elif not line.startswith("Loading "):
                rest.append(line)
    text = "".join(rest)
    shutil.rmtree(os.path.join(d, "md"), ignore_errors=True)
    res = {"name": name, "module": module, "rc": rc, "wall_s": round(dt, 1), "cases": cases, "n_cases": n_cases,
           "out": outp, "text_tail": text[-3000:]}
    res.update(tlc_stats(text))
    if coverage:
        res["coverage"] = tlc_coverage(text)
    res["violated"] = re.findall(r"Invariant (\w+) is violated", text) + re.findall(r"Error: (Assumption .*? is false)", text)
    res["completed"] = "Model checking completed. No error has been found." in text
    if rc == 124:
        raise ToolError("TLC timed out on %s after %ss" % (name, timeout))
    if not res["completed"] and not res["violated"]:
        raise ToolError("TLC failed on %s:\n%s" % (name, text[-3000:]))
    return res


def split_file(path, parts, outdir, prefix):
    lines = open(path).read().splitlines()
    parts = max(1, min(parts, len(lines)))
    files = []
    per = (len(lines) + parts - 1) // parts if lines else 0
    for k in range(parts):
        chunk = lines[k * per:(k + 1) * per]
        if not chunk:
            continue
        p = os.path.join(outdir, "%s_%02d.ndjson" % (prefix, k))
        open(p, "w").write("\n".join(chunk) + "\n")
        files.append(p)
    return files, len(lines)


def validate_trace(pid, name, trace_path, module="Trace_Ledger", shards=8, timeout=1500):
    """Validate an ndjson trace against spec/<module>.tla, sharded over parallel TLC processes.
    Returns verdict tallies, FAIL records (with the segment they refer to) and TLC statistics."""
    d = workdir(pid, "tv_" + name, clean=True)
    files, n = split_file(trace_path, shards, d, "shard")
    if n == 0:
        raise ToolError("empty trace " + trace_path)

    def one(p):
        k = os.path.basename(p).split(".")[0]
        outp = os.path.join(d, k + ".out")
        cmd = ["java", "-XX:+UseParallelGC", "-XX:ParallelGCThreads=2", "-Xmx3g", "-cp", CP, "tlc2.TLC", "-workers", "1",
               "-metadir", os.path.join(d, "md_" + k), "-cleanup", "-noGenerateSpecTE",
               "-config", os.path.join(SPEC, module + ".cfg"), os.path.join(SPEC, module + ".tla")]
        rc, _, dt = sh(cmd, timeout=timeout, cwd=SPEC, env={"TRACE": p, "JAVA_TOOL_OPTIONS": TRACE_JAVA_OPTS}, stdout_path=outp)
        shutil.rmtree(os.path.join(d, "md_" + k), ignore_errors=True)
        return p, outp, rc, dt

    with ThreadPoolExecutor(max_workers=len(files)) as ex:
        results = list(ex.map(one, files))
    tot = {"ok": 0, "fail": 0, "ambig": 0, "skip": 0, "steps": 0}
    fails, ambigs = [], []
    states = generated = 0
    for p, outp, rc, dt in results:
        text = open(outp, errors="replace").read()
        if rc == 124:
            raise ToolError("trace validation timed out on " + p)
        summ = None
        seglines = None
        for line in text.splitlines():
            if '"@@FAIL ' in line or '"@@AMBIG ' in line:
                tag = "FAIL" if '"@@FAIL ' in line else "AMBIG"
                r = _decode_tlc_string(line, tag)
                if seglines is None:
                    seglines = open(p).read().splitlines()
                r["segment"] = json.loads(seglines[r["line"] - 1])
                r["module"] = module
                (fails if tag == "FAIL" else ambigs).append(r)
            elif '"@@SUMMARY ' in line:
                summ = _decode_tlc_string(line, "SUMMARY")
        st = tlc_stats(text)
        ok = "Model checking completed. No error has been found." in text
        if summ is None or not ok:
            bad = re.findall(r"Invariant (\w+) is violated", text)
            raise ToolError("trace validation did not complete on %s (%s):\n%s" % (p, bad, "\n".join(
                l for l in text.splitlines() if not l.startswith("Loading "))[-3000:]))
        for k in tot:
            tot[k] += summ.get(k, 0)
        states += st["distinct"]
        generated += st["generated"]
    return {"segments": n, "tally": tot, "fails": fails, "ambigs": ambigs, "states": states, "transitions": generated,
            "dir": d}


# ---------------------------------------------------------------------------------------------
# known findings
# ---------------------------------------------------------------------------------------------
def load_known():
    p = os.path.join(ROOT, "known_findings.json")
    if not os.path.exists(p):
        return []
    return json.load(open(p)).get("findings", [])


def match_known(pid, rec, known):
    """rec: {cls, detail, segment|case...}.  A finding lists property, cls and a regular expression over
    `detail` and (optionally) over the JSON of the failing input; all must match."""
    for k in known:
        if k.get("property") != pid:
            continue
        if k.get("cls") and k["cls"] != rec.get("cls"):
            continue
        if k.get("detail_re") and not re.search(k["detail_re"], rec.get("detail", "")):
            continue
        if k.get("input_re"):
            blob = json.dumps(rec.get("segment", rec.get("case", "")), sort_keys=True)
            if not re.search(k["input_re"], blob):
                continue
        return k
    return None


# ---------------------------------------------------------------------------------------------
# evidence
# ---------------------------------------------------------------------------------------------
def write_evidence(pid, tier, seed, level, coverage, wall_s, violations, assumptions):
    os.makedirs(os.path.join(ROOT, "evidence"), exist_ok=True)
    ev = {"property_id": pid, "tier": tier, "seed": int(seed), "level": level, "coverage": coverage,
          "assumptions": assumptions, "wall_s": round(wall_s, 1), "violations": int(violations)}
    tmp = os.path.join(ROOT, "evidence", pid + ".json.tmp")
    json.dump(ev, open(tmp, "w"), indent=1)
    os.replace(tmp, os.path.join(ROOT, "evidence", pid + ".json"))


def write_replay(pid, n, payload):
    d = workdir(pid, "replay")
    p = os.path.join(d, "%s_%03d.json" % (pid, n))
    json.dump(payload, open(p, "w"), indent=1)
    return p
