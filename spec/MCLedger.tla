------------------------------ MODULE MCLedger ------------------------------
(***************************************************************************)
(* The ledger as a state machine, for exhaustive exploration by TLC.       *)
(*                                                                         *)
(* The superficial-loss rule needs the whole history of a security before  *)
(* the first row is processed (30-day look-ahead), so the machine has two  *)
(* phases:                                                                 *)
(*   Compose  appends rows chosen nondeterministically from the finite     *)
(*            alphabet Templates, each at a settlement-day gap from Gaps   *)
(*            after the previous one (non-adjacent rows thereby land at    *)
(*            every sum of gaps around 30/31 days);                        *)
(*   Process  steps the ledger through the composed history, one row per   *)
(*            step (Ledger!StepAll), stopping at a rejected row.           *)
(* TLC therefore visits EVERY history over the alphabet up to MaxRows and  *)
(* checks the invariants at every prefix.  Each completed history is also  *)
(* printed as a CASE line, which the harness replays through the real code *)
(* and Trace_Ledger validates - the same rows, the same operators.         *)
(***************************************************************************)
EXTENDS Templates

CONSTANTS Templates,   \* set of row templates (see T below)
          Gaps,        \* set of settlement-day gaps between consecutive rows
          MaxRows,
          Openings,    \* set of opening positions: <<>> (none) or <<sharesPair, costPair>>
          CaseTag,     \* string echoed in the emitted cases
          OnlyFeasible \* TRUE: compose only histories in which no sale exceeds the seller's holdings

VARIABLES hist,    \* composed rows (templates with their settlement day)
          open,    \* chosen opening position
          phase,   \* "compose" | "process" | "done"
          i, S, A, flagged, last   \* ledger position, state, cash-flow accumulators, over-applied seen, last step

vars == <<hist, open, phase, i, S, A, flagged, last>>

AFS == {"default"} \cup { AfId(t.afc) : t \in { t \in Templates : t.afc # "*" } }
REG == [a \in AFS |-> \E t \in Templates : t.afc # "*" /\ AfId(t.afc) = a /\ AfReg(t.afc)]

R == Prepare(RowsOf(hist), open # <<>>)
StartState == IF open = <<>> THEN InitState(AFS) ELSE OpenState(AFS, DefaultAf, P(open[1]), P(open[2]))
StartAcc   == [ZeroAcc EXCEPT !.costs = IF open = <<>> THEN RZero ELSE P(open[2])]

NoStep == [ok |-> TRUE, kind |-> "none"]

Init ==
  /\ hist = <<>> /\ open \in Openings /\ phase = "compose"
  /\ i = 0 /\ S = InitState(AFS) /\ A = ZeroAcc /\ flagged = FALSE /\ last = NoStep

\* share counts only (no money): does every sale fit the seller's holdings?
RECURSIVE FeasibleFrom(_, _, _)
FeasibleFrom(rows, k, sh) ==
  IF k > Len(rows) THEN TRUE
  ELSE LET t == rows[k] IN
       CASE t.act = "Buy"  -> FeasibleFrom(rows, k + 1, [sh EXCEPT ![t.af] = RAdd(@, t.q)])
         [] t.act = "Sell" -> RLe(t.q, sh[t.af]) /\ FeasibleFrom(rows, k + 1, [sh EXCEPT ![t.af] = RSub(@, t.q)])
         [] t.act = "Split" -> FeasibleFrom(rows, k + 1, [sh EXCEPT ![t.af] = RDiv(RMul(@, t.post), t.pre)])
         [] OTHER -> FeasibleFrom(rows, k + 1, sh)
Feasible(hs) ==
  FeasibleFrom(Prepare(RowsOf(hs), open # <<>>), 1,
               [a \in AFS |-> IF a = DefaultAf /\ open # <<>> THEN P(open[1]) ELSE RZero])

Compose ==
  /\ phase = "compose" /\ Len(hist) < MaxRows
  /\ \E t \in Templates, g \in Gaps :
        /\ hist' = Append(hist, [t |-> t, sd |-> IF hist = <<>> THEN BaseDay ELSE hist[Len(hist)].sd + g])
        /\ OnlyFeasible => Feasible(hist')
  /\ UNCHANGED <<open, phase, i, S, A, flagged, last>>

Start ==
  /\ phase = "compose" /\ hist # <<>>
  /\ phase' = "process" /\ i' = 1 /\ S' = StartState /\ A' = StartAcc
  /\ UNCHANGED <<hist, open, flagged, last>>

Process ==
  /\ phase = "process" /\ i <= Len(R)
  /\ LET s == StepAll(S, REG, R, i)
     IN  /\ last' = [s EXCEPT !.S = 0] @@ [kind |-> "step", row |-> R[i], pre |-> S]
         /\ IF s.ok
            THEN /\ S' = s.S /\ i' = i + 1
                 /\ A' = AccStep(A, S, R[i], IF s.hasGain THEN s.gain ELSE RZero)
                 /\ flagged' = (flagged \/ s.over)
                 /\ phase' = phase
            ELSE /\ phase' = "done" /\ UNCHANGED <<i, S, A, flagged>>
  /\ UNCHANGED <<hist, open>>

Finish ==
  /\ phase = "process" /\ i > Len(R)
  /\ phase' = "done" /\ UNCHANGED <<hist, open, i, S, A, flagged, last>>

Next == Compose \/ Start \/ Process \/ Finish
Spec == Init /\ [][Next]_vars

(***************************************************************************)
(* Properties of the rules themselves, at every prefix of every history.   *)
(***************************************************************************)
AllNonReg == \A a \in AFS : ~REG[a]
NoManual  == \A n \in DOMAIN hist : hist[n].t.sflc = "" /\ hist[n].t.act # "SfLA"

\* C04: balances never negative, all-affiliate balance is the sum, registered carry no cost base
InvState == phase # "compose" => StateOK(S, REG)

\* C03: money is conserved while nothing has been flagged as potentially over-applied
InvConserved == (phase # "compose" /\ AllNonReg /\ NoManual /\ ~flagged) => Conserved(A, S)

\* C02/C03 on the last processed sale
SumAdj(adj) == RSumOver(adj, LAMBDA x : x.amt)
InvSfl ==
  (last.kind = "step" /\ last.ok /\ last.superficial) =>
     /\ RNegative(last.raw) /\ ~RPos(last.sfl)
     /\ (~last.manual => /\ RPos(last.ratio) /\ RLe(last.ratio, ROne)
                         /\ RLe(last.raw, last.sfl)                 \* never more than the loss is denied
                         /\ ~RPos(last.gain))
     /\ last.gain = RSub(last.raw, last.sfl)
     \* adjustments never exceed the denied amount and never go to a registered affiliate
     /\ RLe(SumAdj(last.adj), RAbs(last.sfl))
     /\ \A x \in last.adj : ~REG[x.af] /\ RPos(x.amt)
     \* in full when every buyer is non-registered and some buyer still holds shares
     /\ (~last.manual /\ ~last.over /\ AllNonReg => SumAdj(last.adj) = RAbs(last.sfl))
     /\ (last.manual => last.adj = {})
\* a superficial loss requires an acquisition within 30 days of the sale
InvWindow ==
  (last.kind = "step" /\ last.ok /\ last.superficial /\ ~last.manual) =>
     \E j \in DOMAIN R : /\ R[j].act = "Buy"
                         /\ R[j].sd >= last.row.sd - 30 /\ R[j].sd <= last.row.sd + 30
\* C04: exactly one of "normal step" / "reject" applies, and a rejection has one of the listed causes
InvReject ==
  (last.kind = "step" /\ ~last.ok) =>
     last.why \in {"oversell", "roc-registered", "roc-exceeds-acb", "sfla-registered", "split-fraction",
                   "sfl-without-loss", "sfl-mismatch", "oversell-in-window"}

(***************************************************************************)
(* Relational properties of the rules, checked once per completed history. *)
(***************************************************************************)
\* the complete run of a row list from a start state: the sequence of step results (it stops
\* after the first rejected row)
RECURSIVE RunFrom(_, _, _)
RunFrom(R0, S0, k) ==
  IF k > Len(R0) THEN <<>>
  ELSE LET s == StepAll(S0, REG, R0, k)
       IN  IF s.ok THEN <<s>> \o RunFrom(R0, s.S, k + 1) ELSE <<s>>
RunAll(R0, S0) == RunFrom(R0, S0, 1)

\* C16: an opening position equals a purchase by the default affiliate of that many shares for that
\* total cost (amount/share 0, commission = cost) dated more than 30 days before the first row
OpeningBuy ==
  [act |-> "Buy", af |-> DefaultAf, sd |-> BaseDay - 40, td |-> BaseDay - 40, idx |-> -1,
   q |-> P(open[1]), p |-> RZero, c |-> P(open[2]), r |-> ROne, rc |-> ROne,
   hasSfl |-> FALSE, sflv |-> RZero, force |-> FALSE, post |-> ROne, pre |-> ROne, intOnly |-> FALSE, grp |-> FALSE]
SameStep(x, y) ==
  /\ x.ok = y.ok /\ x.S = y.S /\ x.hasGain = y.hasGain /\ x.gain = y.gain /\ x.sfl = y.sfl
  /\ x.superficial = y.superficial /\ x.adj = y.adj /\ x.over = y.over
InvOpeningEquiv ==
  (phase = "done" /\ open # <<>> /\ ~RIsZero(P(open[1]))) =>
     LET a == RunAll(R, StartState)
         b == RunAll(Prepare(<<OpeningBuy>> \o RowsOf(hist), FALSE), InitState(AFS))
     IN  /\ Len(b) = Len(a) + 1 /\ b[1].ok
         /\ \A n \in DOMAIN a : SameStep(a[n], b[n + 1])

\* C15: inserting a post-for-pre split (for all affiliates, or one row per affiliate) before row k
\* and restating every later share quantity times post/pre and every later per-share amount
\* divided by post/pre changes no gain, no superficial loss and no total cost base; share counts
\* scale.  Checked for every position and every ratio in SplitRatios.
CONSTANT SplitRatios            \* set of <<post, pre>> integer pairs
ScaleRow(t, f) ==
  CASE t.act \in {"Buy", "Sell"} -> [t EXCEPT !.q = RMul(@, f), !.p = RDiv(@, f)]
    [] t.act = "Roc"  -> [t EXCEPT !.p = RDiv(@, f)]
    [] t.act = "Sfla" -> [t EXCEPT !.q = RMul(@, f), !.p = RDiv(@, f)]
    [] OTHER -> t
SplitRowAt(sd, idx, af, post, pre) ==
  [act |-> "Split", af |-> af, sd |-> sd, td |-> sd, idx |-> idx, q |-> RZero, p |-> RZero, c |-> RZero,
   r |-> ROne, rc |-> ROne, hasSfl |-> FALSE, sflv |-> RZero, force |-> FALSE,
   post |-> RN(post), pre |-> RN(pre), intOnly |-> FALSE, grp |-> FALSE]
\* rows 1..k-1 unchanged, split rows (one for all affiliates, or one per affiliate in afsq), rows k.. restated
WithSplit(rows, k, post, pre, perAff) ==
  LET f  == RFrac(post, pre)
      sd == IF k <= Len(rows) THEN rows[k].sd ELSE rows[Len(rows)].sd
      hd == SubSeq(rows, 1, k - 1)
      tl == [n \in 1..(Len(rows) - k + 1) |-> ScaleRow(rows[k + n - 1], f)]
      targets == SetSeq(SplitTargets(rows, open # <<>>))
      sp == IF perAff THEN [n \in 1..Len(targets) |-> SplitRowAt(sd, 0, targets[n], post, pre)]
            ELSE <<SplitRowAt(sd, 0, GlobalAf, post, pre)>>
      all == hd \o sp \o tl
  IN  [n \in DOMAIN all |-> [all[n] EXCEPT !.idx = n]]
IsSplitRow(t) == t.act = "Split"
NonSplitSteps(run, R0) == SelectSeq([n \in DOMAIN run |-> [s |-> run[n], t |-> R0[n]]], LAMBDA x : ~IsSplitRow(x.t))
InvSplitNeutral ==
  (phase = "done" /\ \A n \in DOMAIN hist : hist[n].t.act # "Split" /\ hist[n].t.sflc = "") =>
     LET base == RowsOf(hist)
         a == RunAll(R, StartState)
     IN  \A k \in 1..(Len(base) + 1), sr \in SplitRatios, perAff \in BOOLEAN :
           LET Rb == Prepare(WithSplit(base, k, sr[1], sr[2], perAff), open # <<>>)
               b  == NonSplitSteps(RunAll(Rb, StartState), Rb)
               f  == RFrac(sr[1], sr[2])
           IN  /\ Len(b) = Len(a)
               /\ \A n \in DOMAIN a :
                     /\ a[n].ok = b[n].s.ok /\ a[n].hasGain = b[n].s.hasGain
                     /\ a[n].gain = b[n].s.gain /\ a[n].sfl = b[n].s.sfl
                     /\ a[n].superficial = b[n].s.superficial /\ a[n].adj = b[n].s.adj
                     /\ a[n].S.acb = b[n].s.S.acb
                     /\ \A af \in AFS : b[n].s.S.sh[af] = IF n >= k THEN RMul(a[n].S.sh[af], f) ELSE a[n].S.sh[af]

(***************************************************************************)
(* Emission of completed histories as cases for the conformance harness.   *)
(***************************************************************************)
CaseOf ==
  [id |-> CaseTag, files |-> <<[n \in DOMAIN hist |-> CaseRow(hist[n])]>>,
   opening |-> IF open = <<>> THEN [x \in {} |-> 0] ELSE [FOO |-> <<open[1], open[2]>>],
   tags |-> [mc |-> CaseTag]]
EmitCase == phase = "done" => PrintT("@@CASE " \o ToJson(CaseOf))

\* histories are inputs; the ledger figures are functions of them, so hide nothing, but keep the
\* debugging record `last` out of the fingerprint
View == <<hist, open, phase, i, S, A, flagged>>
=============================================================================
