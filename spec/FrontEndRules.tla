---------------------------- MODULE FrontEndRules ----------------------------
(***************************************************************************)
(* The front end of acb (property C05) as a pipeline of stages, over       *)
(* ABSTRACT inputs: what is offered to the program is described by classes *)
(* - an opening-position class (-b), a set of options, a header class, a   *)
(* sequence of row classes, a class of numeric values - and the model says *)
(* how the run must END:                                                   *)
(*    a report            (exit status 0; problems of single securities    *)
(*                         are flagged in it, naming the security), or     *)
(*    a diagnostic        (non-zero exit status, a message attributing the *)
(*                         problem to an option, a file, a row of a file   *)
(*                         or a security),                                 *)
(* never a panic, an abort or a loop, and - the part of C16 that concerns  *)
(* the front end - a malformed -b is refused before anything is read.      *)
(*                                                                         *)
(* The stages are those of cmd.rs / approot.rs, in their order:            *)
(*   options  clap, then --symbol-base, --date-fmt, --summarize-before     *)
(*   header   the header row of the file                                   *)
(*   parse    every row in file order: CSV structure, dates, numbers,      *)
(*            action, superficial-loss and split-ratio cells               *)
(*   rates    every row in file order: exchange rates that must be looked  *)
(*            up (needs the trade date)                                    *)
(*   convert  every row in file order: required cells, signs, rates        *)
(*   process  per security; a refused history is reported for that         *)
(*            security (and fails the run only when a summary is asked)    *)
(*   render                                                                *)
(* The concrete bytes of every class are chosen by the harness (fe.rs);    *)
(* the value class (plain / the largest and smallest values of the         *)
(* practical range / ten decimal places) must not change how a run ends.   *)
(***************************************************************************)
EXTENDS Integers, Sequences, FiniteSets, TLC

\* ---- classes ------------------------------------------------------------
OpeningOk == {"none", "valid", "valid-zero", "two", "other-sec"}
OpeningBad == {"two-fields", "four-fields", "six-fields", "prefix-field", "empty-leading", "trailing-colon", "empty-symbol", "bad-shares", "bad-acb", "neg-shares", "neg-acb", "empty", "huge"}
OptBad == {"summarize-bad", "date-fmt-bad"}
OptSummary == {"summarize", "summarize-early", "summarize-late"}
HeaderOk == {"ok", "bom", "upper", "spaces", "crlf", "no-final-eol", "unknown-col", "dup-col"}
HeaderBad == {"both-settle", "no-security-col"}
\* a first line that is blank or not text: what remains may or may not be a readable file
HeaderAny == {"blank", "garbage", "latin1"}
\* the date format a row is written in
RowDates(r) == CASE r = "bad-date-fmt" -> "us" [] r = "bad-date" -> "bad" [] r = "blank-dates" -> "blank" [] OTHER -> "iso"
FmtOf(opts) == IF "date-fmt-us" \in opts THEN "us" ELSE IF "date-fmt-empty" \in opts THEN "empty" ELSE "iso"
\* refused while the rows are read (structure of the record, then the cells that are parsed)
ParseRefused == {"bad-number", "bad-price", "exp-number", "unknown-action", "short-row", "long-row", "bad-sfl", "pos-sfl", "bad-split", "zero-split", "split-by-zero"}
\* refused when the parsed row is turned into a transaction
\* refused when the exchange rates of the rows are looked up (between reading and conversion): the file is named
RatesRefused == {"blank-dates"}
ConvertRefused == {"blank-action", "blank-security", "blank-shares", "neg-shares", "zero-shares", "neg-price", "neg-commission", "neg-rate", "zero-rate", "cad-rate"}
\* accepted as rows; the history of the security is refused for certain when it is processed
SureRefused == {"oversell", "sfla-reg", "roc-reg"}
\* accepted as rows; whether the history is acceptable depends on the holdings at that point
Contextual == {"roc-none", "sell-sfl-zero", "sell-sfl-zero-forced", "sell-gain", "sell-loss", "sell-loss-third", "sell-usd", "sell-all", "sell-af", "sell-sfl", "sell-sfl-forced", "roc", "sfla", "split-rev", "year-2100"}
Harmless == {"buy", "buy-hi", "buy-usd", "buy-af", "buy-reg", "buy-bar", "split", "split-third", "year-1900", "sfl-on-buy", "settle-before-trade", "quote-open", "nul-byte"}
RowClasses == ParseRefused \cup RatesRefused \cup ConvertRefused \cup SureRefused \cup Contextual \cup Harmless \cup {"bad-date", "bad-date-fmt"}

\* an unterminated quote swallows the rest of the file into one cell: later rows are never seen
RECURSIVE Visible(_)
Visible(rows) == IF rows = <<>> THEN <<>> ELSE IF Head(rows) = "quote-open" THEN <<Head(rows)>> ELSE <<Head(rows)>> \o Visible(Tail(rows))
ParseBad(r, fmt) == r \in ParseRefused \/ (RowDates(r) \notin {"blank", fmt})
RatesBad(r) == r \in RatesRefused
ConvertBad(r) == r \in ConvertRefused

\* ---- how a run ends ------------------------------------------------
NoOut == [kind |-> "", attr |-> {}, row |-> 0, flagged |-> "no"]
Diag(attr, row) == [kind |-> "diag", attr |-> attr, row |-> row, flagged |-> "no"]
AnyOut == [kind |-> "any", attr |-> {}, row |-> 0, flagged |-> "any"]
\* the binary names the option; the web UI hands back the parser's own message
OpeningAttr(fe) == IF fe = "acb" THEN {"option"} ELSE {"message"}

\* ---- how the run on input i must end (module FrontEnd reaches the same result stage by stage)
FirstWhere(rows, P(_)) == IF \E k \in DOMAIN rows : P(rows[k]) THEN CHOOSE k \in DOMAIN rows : P(rows[k]) /\ \A j \in 1..(k - 1) : ~P(rows[j]) ELSE 0
Expected(i) ==
  LET rows == Visible(i.rows)
      fmt == FmtOf(i.opts)
      pb == FirstWhere(rows, LAMBDA r : ParseBad(r, fmt))
      rb == FirstWhere(rows, RatesBad)
      cb == FirstWhere(rows, ConvertBad)
      flag == IF \E k \in DOMAIN rows : rows[k] \in SureRefused THEN "yes"
              ELSE IF \E k \in DOMAIN rows : rows[k] \in Contextual THEN "any" ELSE "no"
      summary == i.opts \cap OptSummary # {}
  IN  IF i.opening \in OpeningBad THEN Diag(OpeningAttr(i.fe), 0)
      ELSE IF i.opts \cap OptBad # {} THEN Diag({"message"}, 0)
      ELSE IF i.header \in HeaderBad THEN Diag({"file"}, 0)
      ELSE IF i.header \in HeaderAny THEN AnyOut
      ELSE IF pb # 0 THEN Diag({"file", "row"}, pb + 1)
      ELSE IF rb # 0 THEN Diag({"file"}, 0)
      ELSE IF cb # 0 THEN Diag({"file", "row"}, cb + 1)
      ELSE IF summary /\ flag = "yes" THEN [Diag({"security"}, 0) EXCEPT !.flagged = "yes"]
      ELSE [kind |-> IF summary /\ flag = "any" THEN "any" ELSE "report", attr |-> {}, row |-> 0, flagged |-> flag]
=============================================================================
