SPECIFICATION Spec
INVARIANT Summary
POSTCONDITION Accepted
CHECK_DEADLOCK FALSE
