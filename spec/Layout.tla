------------------------------- MODULE Layout -------------------------------
(***************************************************************************)
(* Input layouts (property C07).  An input is a sequence of CSV files,     *)
(* each a header variant plus a sequence of rows.  Figures may depend only *)
(* on, per security, the rows in settlement-date order with ties broken by *)
(* position in the concatenated input.  The admissible re-layout steps are *)
(*   SplitFile, MergeFiles   change the partition into files;              *)
(*   SwapRows                exchange two adjacent rows of the             *)
(*                           concatenation unless they belong to the same  *)
(*                           security and settle on the same date;         *)
(*   SetHeader               another header variant (column order, case,   *)
(*                           padding, unrecognised extra columns).         *)
(* TLC explores the whole orbit of a base input under these steps and      *)
(* checks that the processing order of every security never changes; each  *)
(* reachable layout is emitted and run through acb by the harness.         *)
(***************************************************************************)
EXTENDS Integers, Sequences, FiniteSets, SequencesExt, TLC

CONSTANTS BaseInfo,      \* sequence of [sec, sd] - the base input's rows (ids are positions)
          HeaderVariants \* set of header variant numbers
VARIABLES files,         \* sequence of non-empty sequences of row ids
          hdr            \* header variant used for every file
lvars == <<files, hdr>>

RECURSIVE Concat(_)
Concat(fs) == IF fs = <<>> THEN <<>> ELSE Head(fs) \o Concat(Tail(fs))

\* processing order of security s: its row ids sorted by (settlement day, position in the concatenation)
OrderOf(fs, s) ==
  LET c == Concat(fs)
      pos == { n \in DOMAIN c : BaseInfo[c[n]].sec = s }
      Less(a, b) == BaseInfo[c[a]].sd < BaseInfo[c[b]].sd \/ (BaseInfo[c[a]].sd = BaseInfo[c[b]].sd /\ a < b)
      sorted == SortSeq(SetToSeq(pos), Less)
  IN  [k \in DOMAIN sorted |-> c[sorted[k]]]
SecsOf == { BaseInfo[n].sec : n \in DOMAIN BaseInfo }
BaseFiles == << [n \in DOMAIN BaseInfo |-> n] >>

LInit == files = BaseFiles /\ hdr \in HeaderVariants

SplitFile == \E f \in DOMAIN files : \E k \in 1..(Len(files[f]) - 1) :
  /\ files' = SubSeq(files, 1, f - 1) \o <<SubSeq(files[f], 1, k), SubSeq(files[f], k + 1, Len(files[f]))>>
              \o SubSeq(files, f + 1, Len(files))
  /\ UNCHANGED hdr
MergeFiles == \E f \in 1..(Len(files) - 1) :
  /\ files' = SubSeq(files, 1, f - 1) \o <<files[f] \o files[f + 1]>> \o SubSeq(files, f + 2, Len(files))
  /\ UNCHANGED hdr
Admissible(a, b) == ~(BaseInfo[a].sec = BaseInfo[b].sec /\ BaseInfo[a].sd = BaseInfo[b].sd)
SwapRows == \E f \in DOMAIN files : \E k \in 1..(Len(files[f]) - 1) :
  /\ Admissible(files[f][k], files[f][k + 1])
  /\ files' = [files EXCEPT ![f] = [@ EXCEPT ![k] = files[f][k + 1], ![k + 1] = files[f][k]]]
  /\ UNCHANGED hdr
LNext == SplitFile \/ MergeFiles \/ SwapRows
LSpec == LInit /\ [][LNext]_lvars

OrderInvariant == \A s \in SecsOf : OrderOf(files, s) = OrderOf(BaseFiles, s)
\* the step excluded above really is the only harmful one: swapping two same-security same-day
\* rows changes the processing order
SwapMatters ==
  \A f \in DOMAIN files : \A k \in 1..(Len(files[f]) - 1) :
     ~Admissible(files[f][k], files[f][k + 1]) =>
        LET g == [files EXCEPT ![f] = [@ EXCEPT ![k] = files[f][k + 1], ![k + 1] = files[f][k]]]
        IN  OrderOf(g, BaseInfo[files[f][k]].sec) # OrderOf(files, BaseInfo[files[f][k]].sec)
=============================================================================
