------------------------------ MODULE Templates ------------------------------
(***************************************************************************)
(* Row templates shared by the model-checking modules: a finite alphabet   *)
(* of input rows that can be handed both to the specification (MkRow: the  *)
(* Ledger row) and to the real code (CaseRow: the cells of the CSV row).   *)
(***************************************************************************)
EXTENDS Ledger, Tx, Json

P(x) == RDec(x[1], x[2])                \* <<mantissa, scale>> -> Rat

(***************************************************************************)
(* Row templates.  Numbers are <<mantissa, scale>> pairs so that the same  *)
(* value can be handed to the real code as a decimal.  afc is the          *)
(* affiliate cell as a user writes it; AfId/AfReg give its meaning.        *)
(***************************************************************************)
AfId(c)  == CASE c = "" -> "default" [] c = "Default" -> "default" [] c = "Spouse" -> "spouse"
              [] c = "(R)" -> "default (R)" [] c = "Spouse (R)" -> "spouse (R)" [] c = "Kid" -> "kid"
AfReg(c) == c \in {"(R)", "Spouse (R)"}

Z == <<0, 0>>
One == <<1, 0>>
T(act, afc, q, p, c, cur, r, ccur, rc, sflc, sflv, force, splitc, post, pre, intOnly) ==
  [act |-> act, afc |-> afc, q |-> q, p |-> p, c |-> c, cur |-> cur, r |-> r, ccur |-> ccur, rc |-> rc,
   sflc |-> sflc, sflv |-> sflv, force |-> force, splitc |-> splitc, post |-> post, pre |-> pre,
   intOnly |-> intOnly, tdoff |-> 0]
\* the same row traded k days before it settles
Traded(t, k) == [t EXCEPT !.tdoff = k]
TBuy(afc, q, p, c)            == T("Buy", afc, q, p, c, "", One, "", One, "", Z, FALSE, "", One, One, FALSE)
TSell(afc, q, p, c)           == T("Sell", afc, q, p, c, "", One, "", One, "", Z, FALSE, "", One, One, FALSE)
TBuyFx(afc, q, p, c, cur, r, ccur, rc)  == T("Buy", afc, q, p, c, cur, r, ccur, rc, "", Z, FALSE, "", One, One, FALSE)
TSellFx(afc, q, p, c, cur, r, ccur, rc) == T("Sell", afc, q, p, c, cur, r, ccur, rc, "", Z, FALSE, "", One, One, FALSE)
TSellSfl(afc, q, p, sflc, sflv, force)  == T("Sell", afc, q, p, Z, "", One, "", One, sflc, sflv, force, "", One, One, FALSE)
TRoc(afc, p)                  == T("RoC", afc, Z, p, Z, "", One, "", One, "", Z, FALSE, "", One, One, FALSE)
TSfla(afc, q, p)              == T("SfLA", afc, q, p, Z, "", One, "", One, "", Z, FALSE, "", One, One, FALSE)
\* afc = "*" : the split names no affiliate (applies to all)
TSplit(afc, splitc, post, pre, intOnly) == T("Split", afc, Z, Z, Z, "", One, "", One, "", Z, FALSE, splitc, post, pre, intOnly)

NormAct(a) == CASE a = "RoC" -> "Roc" [] a = "SfLA" -> "Sfla" [] OTHER -> a
BaseDay == 18300
MkRow(h, idx) ==
  LET t == h.t
      glob == t.act = "Split" /\ t.afc = "*"
      rate == IF t.cur \in {"", "CAD"} THEN ROne ELSE P(t.r)
  IN  [act |-> NormAct(t.act), af |-> IF glob THEN GlobalAf ELSE AfId(t.afc), sd |-> h.sd, td |-> h.sd - t.tdoff, idx |-> idx,
       q |-> P(t.q), p |-> P(t.p), c |-> P(t.c), r |-> rate,
       rc |-> IF t.ccur = "" THEN rate ELSE IF t.ccur = "CAD" THEN ROne ELSE P(t.rc),
       hasSfl |-> t.sflc # "", sflv |-> P(t.sflv), force |-> t.force,
       post |-> P(t.post), pre |-> P(t.pre), intOnly |-> t.intOnly, grp |-> FALSE]
RowsOf(hs) == [n \in DOMAIN hs |-> MkRow(hs[n], n - 1)]

CaseRow(h) ==
  LET t == h.t IN
  [sec |-> "FOO", td |-> h.sd - t.tdoff, sd |-> h.sd, act |-> t.act, af |-> IF t.afc = "*" THEN "" ELSE t.afc,
   q |-> IF t.act \in {"RoC", "Split"} THEN "" ELSE t.q, p |-> IF t.act = "Split" THEN "" ELSE t.p,
   c |-> IF t.act \in {"Buy", "Sell"} THEN t.c ELSE "",
   cur |-> t.cur, r |-> IF t.cur \in {"", "CAD"} THEN "" ELSE t.r,
   ccur |-> t.ccur, rc |-> IF t.ccur \in {"", "CAD"} THEN "" ELSE t.rc,
   sfl |-> t.sflc, split |-> t.splitc, memo |-> ""]
=============================================================================
