import java.math.BigInteger;

import tlc2.value.impl.BoolValue;
import tlc2.value.impl.IntValue;
import tlc2.value.impl.StringValue;
import tlc2.value.impl.TupleValue;
import tlc2.value.impl.Value;

/**
 * TLC module override for spec/Rat.tla: the same operators, evaluated with BigInteger.
 * A rational is the tuple <<n, d>>, d > 0, gcd(|n|, d) = 1.  A component that fits a TLC
 * integer is an IntValue, anything larger is a StringValue holding its decimal digits, so a
 * given number has exactly one representation and TLA+ equality stays numeric equality.
 */
public class Rat {
    private static final BigInteger IMIN = BigInteger.valueOf(Integer.MIN_VALUE + 1L);
    private static final BigInteger IMAX = BigInteger.valueOf(Integer.MAX_VALUE);
    private static final BigInteger TWO = BigInteger.valueOf(2);
    private static final BigInteger HUNDRED = BigInteger.valueOf(100);

    private static BigInteger big(Value v) {
        if (v instanceof IntValue) {
            return BigInteger.valueOf(((IntValue) v).val);
        }
        if (v instanceof StringValue) {
            return new BigInteger(((StringValue) v).val.toString());
        }
        throw new RuntimeException("Rat: not an integer component: " + v);
    }

    private static Value comp(BigInteger b) {
        if (b.compareTo(IMIN) >= 0 && b.compareTo(IMAX) <= 0) {
            return IntValue.gen(b.intValue());
        }
        return new StringValue(b.toString());
    }

    private static BigInteger num(Value r) {
        return big(((TupleValue) r.toTuple()).elems[0]);
    }

    private static BigInteger den(Value r) {
        return big(((TupleValue) r.toTuple()).elems[1]);
    }

    private static Value mk(BigInteger n, BigInteger d) {
        if (d.signum() == 0) {
            throw new RuntimeException("Rat: division by zero");
        }
        if (n.signum() == 0) {
            return new TupleValue(new Value[] { IntValue.gen(0), IntValue.gen(1) });
        }
        if (d.signum() < 0) {
            n = n.negate();
            d = d.negate();
        }
        BigInteger g = n.abs().gcd(d);
        return new TupleValue(new Value[] { comp(n.divide(g)), comp(d.divide(g)) });
    }

    private static Value bool(boolean b) {
        return b ? BoolValue.ValTrue : BoolValue.ValFalse;
    }

    public static Value RNorm(final Value n, final Value d) {
        return mk(big(n), big(d));
    }

    public static Value RN(final Value n) {
        return mk(big(n), BigInteger.ONE);
    }

    public static Value RFrac(final Value n, final Value d) {
        return mk(big(n), big(d));
    }

    public static Value RPow10(final Value e) {
        return comp(BigInteger.TEN.pow(((IntValue) e).val));
    }

    public static Value RDec(final Value m, final Value e) {
        return mk(big(m), BigInteger.TEN.pow(((IntValue) e).val));
    }

    public static Value RAdd(final Value a, final Value b) {
        return mk(num(a).multiply(den(b)).add(num(b).multiply(den(a))), den(a).multiply(den(b)));
    }

    public static Value RSub(final Value a, final Value b) {
        return mk(num(a).multiply(den(b)).subtract(num(b).multiply(den(a))), den(a).multiply(den(b)));
    }

    public static Value RMul(final Value a, final Value b) {
        return mk(num(a).multiply(num(b)), den(a).multiply(den(b)));
    }

    public static Value RDiv(final Value a, final Value b) {
        return mk(num(a).multiply(den(b)), den(a).multiply(num(b)));
    }

    public static Value RNeg(final Value a) {
        return mk(num(a).negate(), den(a));
    }

    public static Value RSign(final Value a) {
        return IntValue.gen(num(a).signum());
    }

    public static Value RAbs(final Value a) {
        return mk(num(a).abs(), den(a));
    }

    private static int cmp(Value a, Value b) {
        return num(a).multiply(den(b)).compareTo(num(b).multiply(den(a)));
    }

    public static Value RLt(final Value a, final Value b) {
        return bool(cmp(a, b) < 0);
    }

    public static Value RLe(final Value a, final Value b) {
        return bool(cmp(a, b) <= 0);
    }

    public static Value RMin(final Value a, final Value b) {
        return cmp(a, b) <= 0 ? a : b;
    }

    public static Value RMax(final Value a, final Value b) {
        return cmp(a, b) <= 0 ? b : a;
    }

    public static Value REq(final Value a, final Value b) {
        return bool(num(a).equals(num(b)) && den(a).equals(den(b)));
    }

    public static Value RIsInt(final Value a) {
        return bool(den(a).equals(BigInteger.ONE));
    }

    public static Value RIsZero(final Value a) {
        return bool(num(a).signum() == 0);
    }

    public static Value RPos(final Value a) {
        return bool(num(a).signum() > 0);
    }

    public static Value RNegative(final Value a) {
        return bool(num(a).signum() < 0);
    }

    public static Value RClose(final Value a, final Value b, final Value eps) {
        BigInteger n = num(a).multiply(den(b)).subtract(num(b).multiply(den(a))).abs();
        BigInteger d = den(a).multiply(den(b));
        // n/d <= en/ed
        return bool(n.multiply(den(eps)).compareTo(num(eps).multiply(d)) <= 0);
    }

    public static Value RSumSeq(final Value s) {
        TupleValue t = (TupleValue) s.toTuple();
        BigInteger n = BigInteger.ZERO;
        BigInteger d = BigInteger.ONE;
        for (Value e : t.elems) {
            BigInteger en = num(e);
            BigInteger ed = den(e);
            n = n.multiply(ed).add(en.multiply(d));
            d = d.multiply(ed);
            BigInteger g = n.gcd(d);
            if (g.signum() != 0 && !g.equals(BigInteger.ONE)) {
                n = n.divide(g);
                d = d.divide(g);
            }
        }
        return mk(n, d);
    }

    public static Value RRoundCents(final Value a) {
        BigInteger n = num(a);
        BigInteger d = den(a);
        int s = n.signum();
        BigInteger x = n.abs();
        // floor((200 x + d) / (2 d))
        BigInteger c = x.multiply(HUNDRED).multiply(TWO).add(d).divide(d.multiply(TWO));
        return mk(s < 0 ? c.negate() : c, HUNDRED);
    }

    public static Value RIsDecimal(final Value a, final Value k) {
        BigInteger d = den(a);
        return bool(BigInteger.TEN.pow(((IntValue) k).val).mod(d).signum() == 0);
    }

    public static Value RStr(final Value a) {
        return new StringValue(num(a).toString() + "/" + den(a).toString());
    }
}
