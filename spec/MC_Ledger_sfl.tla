--------------------------- MODULE MC_Ledger_sfl ---------------------------
(* Alphabet for the superficial-loss window (C02, C03): purchases and sales by the default   *)
(* affiliate, a spouse and a registered account, at gaps that put rows at every offset       *)
(* around the 30/31-day edge, with a gain and a loss price level.                             *)
EXTENDS MCLedger
q1 == <<1, 0>>  q2 == <<2, 0>>  q3 == <<3, 0>>
TemplatesV ==
  { TBuy(a, q, <<10, 0>>, Z) : a \in {"", "Spouse", "(R)"}, q \in {q1, q3} } \cup
  { TSell(a, q, <<7, 0>>, Z) : a \in {"", "Spouse"}, q \in {q1, q2} } \cup
  { TSell("", q1, <<12, 0>>, Z), TSell("(R)", q1, <<7, 0>>, Z) }
GapsV == {0, 1, 29, 30, 31}
SplitRatiosV == {<<2, 1>>, <<1, 2>>, <<3, 2>>, <<1, 3>>}
OpeningsV == {<<>>}
=============================================================================
