------------------------------- MODULE MC_Fmv -------------------------------
(* Every allocation table of up to MaxSecs securities over alphabets of description shapes (one to  *)
(* three lines, digits / dates / percentages inside, a number after the code, a line of two numbers *)
(* in the middle, optionally two number-shaped tokens at the very end), data pairs (among them a    *)
(* 100% allocation and a one-digit value), data at the end of the description line or on its own    *)
(* line, both spellings of the total row, text before and after the table: the reader of module     *)
(* Fmv gives back exactly the table (InvReadsBack).  Tables are emitted for the harness.            *)
EXTENDS Fmv, Json
CONSTANTS MaxSecs, DescIds, DataIds
VARIABLES secs, shell, done
vars == <<secs, shell, done>>

Desc(id) ==
  CASE id = 1 -> << <<W("BLABLA"), W("ETF"), W("(BLABLA)")>> >>
    [] id = 2 -> << <<W("SOME"), W("GIC"), W("01/01/2024")>>, <<W("4.00%"), W("1Y"), W("DUE"), W("01/01/2024"), W("(XXXXXX)")>> >>
    [] id = 3 -> << <<W("ANOTHER"), W("GIC"), W("01/01/2025")>>, <<W("5.00%"), W("2Y"), W("CPD"), W("INT"), W("5.00%")>>, <<W("(YYYYYY)")>> >>
    [] id = 4 -> << <<W("FOO"), W("BAR"), W("5%"), W("(FOOBAR)"), N("99", 99, 0)>> >>
    [] id = 5 -> << <<W("Other")>> >>
    [] id = 6 -> << <<W("BOND")>>, <<N("2030", 2030, 0), N("4.5", 45, 1), W("(BND)")>> >>
    [] id = 7 -> << <<W("X"), W("CORP")>>, <<N("2.5", 25, 1), N("2031", 2031, 0)>>, <<W("(XC)")>> >>
    \* a description whose last two tokens are number-shaped
    [] id = 8 -> << <<W("NOTE"), W("SERIES")>>, <<N("4.5", 45, 1), N("2025", 2025, 0)>> >>
Data(id) ==
  CASE id = 1 -> <<N("80.0", 800, 1), M("80,000.0", 800000, 1)>>
    [] id = 2 -> <<N("20.0", 200, 1), M("20,000.0", 200000, 1)>>
    [] id = 3 -> <<N("5.0", 50, 1), M("5,000.1", 50001, 1)>>
    [] id = 4 -> <<H("100.0"), M("99,999.99", 9999999, 2)>>
    [] id = 5 -> <<N("0.0", 0, 1), Dg("0", 0)>>
    [] id = 6 -> <<N("55.55", 5555, 2), N("1234.5", 12345, 1)>>
    \* a holding of seven digits: two thousands separators
    [] id = 7 -> <<N("12.5", 125, 1), M("1,234,567.8", 12345678, 1)>>
Shells ==
  { [hundred |-> h, total |-> t, before |-> b, after |-> a] :
      h \in {H("100.0"), H("100.00")}, t \in {M("100,000.01", 10000001, 2), N("0.0", 0, 1)},
      b \in {<<>>, <<Line(<<W("Leading"), W("garbage"), N("12.5", 125, 1)>>)>>},
      a \in {<<>>, <<Line(<<W("1"), W("Combined"), W("in"), W("(CAD)")>>), Line(<<W("2"), N("99.5", 995, 1)>>)>>} }
Sec(d, x, own) == [desc |-> Desc(d), alloc |-> Data(x)[1], value |-> Data(x)[2], own |-> own]
Table == [secs |-> secs, hundred |-> shell.hundred, total |-> shell.total, before |-> shell.before, after |-> shell.after]

Init == secs = <<>> /\ shell \in Shells /\ done = FALSE
Add == ~done /\ Len(secs) < MaxSecs /\ \E d \in DescIds, x \in DataIds, own \in BOOLEAN :
          secs' = Append(secs, Sec(d, x, own)) /\ UNCHANGED <<shell, done>>
Close == ~done /\ done' = TRUE /\ UNCHANGED <<secs, shell>>
Next == Add \/ Close
Spec == Init /\ [][Next]_vars

InvReadsBack == (done /\ ~Ambiguous(Table)) => ReadsBack(Table)
\* ... and only those fail
InvAmbiguousFails == (done /\ Ambiguous(Table)) => ~ReadsBack(Table)
\* every security exactly once: as many as listed, in order
InvOnce == (done /\ ~Ambiguous(Table)) => Len(Parse(Render(Table)).secs) = Len(secs)
EmitCase == done => PrintT("@@CASE " \o ToJson([id |-> "tab", table |-> Table, lines |-> Render(Table)]))
=============================================================================
