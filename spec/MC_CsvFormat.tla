---------------------------- MODULE MC_CsvFormat ----------------------------
EXTENDS CsvFormat
ActsV == {"Buy", "Sell", "RoC", "SfLA", "Split"}
AfsV == {"default", "default (R)", "spouse", "spouse (R)", "default spouse", "global"}
DecClassesV == {"int", "zeros", "long", "tiny"}
MemoClassesV == {"empty", "plain", "tricky"}
\* quick configuration: one decimal / memo class (they do not interact with the column structure)
DecOne == {"int"}
MemoOne == {"plain"}
=============================================================================
