-------------------------------- MODULE Pages --------------------------------
(***************************************************************************)
(* questrade-statement-fmv (property C20), part 2: the order in which the  *)
(* pages of a statement are loaded and scanned (pdf.rs).                   *)
(*                                                                         *)
(*   SafeChunks(n, hints)   safe_page_chunks_with_remainder_pn: drop the   *)
(*                          hinted pages that do not exist, drop hint      *)
(*                          groups that become empty, append one group of  *)
(*                          all pages no hint named                        *)
(*   the iterator           OptimizedPageIter over a LazyPageTextVec: when *)
(*                          nothing is left to yield, LOAD the next group  *)
(*                          (every page of it is extracted and stored in a *)
(*                          vector indexed by page number), then YIELD its *)
(*                          pages one by one out of that vector            *)
(*   Scan                   parse_statement_text over the yielded pages:   *)
(*                          the month is taken from the first page that    *)
(*                          states it, the table from the first page that  *)
(*                          carries the marker - if the month is known by  *)
(*                          then                                           *)
(*                                                                         *)
(* StoreMode selects how a loaded page is put into the vector:             *)
(*   "resize"  Vec::resize(page, None) then store - as found; resize also  *)
(*             SHRINKS the vector, dropping pages stored behind it         *)
(*   "grow"    lengthen the vector only when it is too short (repaired)    *)
(***************************************************************************)
EXTENDS Integers, Sequences, FiniteSets, TLC
CONSTANT StoreMode

Range(s) == { s[i] : i \in DOMAIN s }
RECURSIVE Flatten(_)
Flatten(gs) == IF gs = <<>> THEN <<>> ELSE Head(gs) \o Flatten(Tail(gs))

SafeChunks(n, hints) ==
  LET safe == [g \in DOMAIN hints |-> SelectSeq(hints[g], LAMBDA p : p >= 1 /\ p <= n)]
      kept == SelectSeq(safe, LAMBDA c : c # <<>>)
      found == UNION { Range(safe[g]) : g \in DOMAIN safe }
      rest == SelectSeq([i \in 1..n |-> i], LAMBDA p : p \notin found)
  IN  IF Cardinality(found) # n THEN Append(kept, rest) ELSE kept

(***************************************************************************)
(* the lazily filled vector of page texts: a sequence whose k-th element   *)
(* is 0 (not loaded) or the identity of the text of page k                 *)
(***************************************************************************)
Pad(v, len) == [i \in 1..len |-> IF i <= Len(v) THEN v[i] ELSE 0]
Store(v, p, text) ==
  LET sized == IF StoreMode = "resize" THEN (IF p <= Len(v) THEN SubSeq(v, 1, p) ELSE Pad(v, p))
               ELSE (IF p <= Len(v) THEN v ELSE Pad(v, p))
  IN  [sized EXCEPT ![p] = text]
RECURSIVE StoreAll(_, _, _)
\* the text of page p of an n-page document is p itself; a page that does not exist has text -1
TextOf(n, p) == IF p >= 1 /\ p <= n THEN p ELSE -1
StoreAll(v, n, pages) == IF pages = <<>> THEN v ELSE StoreAll(Store(v, Head(pages), TextOf(n, Head(pages))), n, Tail(pages))

(***************************************************************************)
(* the same iteration as a function (for judging recorded runs): the       *)
(* sequence of <<page, text>> yielded and whether the iterator panicked;   *)
(* module PageIter is the step-by-step iterator; MC_PageIter checks that   *)
(* the two agree                                                           *)
(***************************************************************************)
RECURSIVE YieldAll(_, _)
YieldAll(v, pages) ==
  IF pages = <<>> THEN [y |-> <<>>, panic |-> FALSE]
  ELSE LET p == Head(pages) IN
       IF p > Len(v) \/ v[p] = 0 THEN [y |-> <<>>, panic |-> TRUE]
       ELSE LET r == YieldAll(v, Tail(pages)) IN [y |-> <<<<p, v[p]>>>> \o r.y, panic |-> r.panic]
RECURSIVE IterFrom(_, _, _, _)
IterFrom(np, gs, k, v) ==
  IF k > Len(gs) THEN [y |-> <<>>, panic |-> FALSE]
  ELSE IF gs[k] = <<>> THEN [y |-> <<>>, panic |-> TRUE]
  ELSE LET v2 == StoreAll(v, np, gs[k])
           a == YieldAll(v2, gs[k])
       IN  IF a.panic THEN a
           ELSE LET r == IterFrom(np, gs, k + 1, v2) IN [y |-> a.y \o r.y, panic |-> r.panic]
IterFn(np, gs) == IterFrom(np, gs, 1, <<>>)

(***************************************************************************)
(* scanning the yielded pages                                              *)
(*   doc: [month (set of pages stating the month), table (set of pages     *)
(*   carrying the marker and a table)]                                     *)
(***************************************************************************)
RECURSIVE ScanFrom(_, _, _, _)
ScanFrom(order, doc, k, monthAt) ==
  IF k > Len(order) THEN [res |-> "no-table", table |-> 0, month |-> 0]
  ELSE LET p == order[k]
           m == IF monthAt = 0 /\ p \in doc.month THEN p ELSE monthAt
       IN  IF p \in doc.table
           THEN IF m = 0 THEN [res |-> "no-month", table |-> p, month |-> 0] ELSE [res |-> "ok", table |-> p, month |-> m]
           ELSE ScanFrom(order, doc, k + 1, m)
Scan(order, doc) == ScanFrom(order, doc, 1, 0)
\* the hints of the tool
ToolHints == << <<1, 7>>, <<6, 8>> >>
ToolOrder(np) == Flatten(SafeChunks(np, ToolHints))

=============================================================================
