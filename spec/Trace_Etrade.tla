----------------------------- MODULE Trace_Etrade -----------------------------
(***************************************************************************)
(* Property C19 on the real extractor: one trace line per scenario - the   *)
(* benefits and trade confirmations that were rendered into confirmation   *)
(* texts, the exit status of etrade-plan-pdf-tx-extract and the rows it    *)
(* printed.  The rows must be explained by SOME valid matching of module   *)
(* Etrade (TLC searches for it); if there is none the tool must fail.      *)
(*   class "match"   output not explained by any valid matching / a        *)
(*                   scenario without a valid matching was not refused /   *)
(*                   an unambiguous scenario was refused                   *)
(*   class "order"   rows not ordered by settlement date                   *)
(*   class "accept"  printed rows not accepted by acb                      *)
(***************************************************************************)
EXTENDS Etrade, Json, IOUtils
Recs == ndJsonDeserialize(IOEnv.TRACE)
VARIABLES l, tally
vars == <<l, tally>>
D(x) == RDec(x.m, x.e)
FailV(cls, detail) == [v |-> "fail", cls |-> cls, detail |-> detail]
OkV == [v |-> "ok", cls |-> "", detail |-> ""]
Chk(cond, cls, detail, rest) == IF cond THEN rest ELSE FailV(cls, detail)
BOf(rec) == [n \in DOMAIN rec.B |-> [sec |-> rec.B[n].sec, day |-> rec.B[n].day, shares |-> D(rec.B[n].shares), fmv |-> D(rec.B[n].fmv),
                                      sold |-> D(rec.B[n].sold), sprice |-> D(rec.B[n].sprice), fee |-> D(rec.B[n].fee)]]
TOf(rec) == [n \in DOMAIN rec.T |-> [sec |-> rec.T[n].sec, td |-> rec.T[n].td, sd |-> rec.T[n].sd, shares |-> D(rec.T[n].shares),
                                      price |-> D(rec.T[n].price), comm |-> D(rec.T[n].comm)]]
RowIs(o, e) ==
  /\ o.kind = e.kind /\ o.act = (IF e.kind = "buy" THEN "Buy" ELSE "Sell") /\ o.sec = e.sec /\ o.cur = "USD"
  /\ REq(D(o.shares), e.shares) /\ REq(D(o.price), e.price) /\ REq(D(o.comm), e.comm) /\ <<o.td, o.sd>> \in e.dates
\* the printed rows are exactly the expected ones: a bijection (built greedily over a canonical order -
\* expected rows that could claim the same printed row are identical in every compared field but `dates`)
Explains(out, exp) ==
  /\ Len(out) = Cardinality(exp)
  /\ \A e \in exp : \E m \in DOMAIN out : RowIs(out[m], e)
  /\ \A m \in DOMAIN out : \E e \in exp : RowIs(out[m], e)
  \* counting: as many printed rows of each (kind, shares, price, dates-compatible) class as expected ones
  /\ \A e \in exp : Cardinality({ m \in DOMAIN out : RowIs(out[m], e) }) >= Cardinality({ f \in exp : \A m \in DOMAIN out : RowIs(out[m], e) <=> RowIs(out[m], f) })
Subsets(B, T, n) == { S \in SUBSET Candidates(B[n], T) : S # {} /\ REq(SumShares(T, S), B[n].sold) }
Unambiguous(B, T) == \A n \in DOMAIN B : NeedsMatch(B[n]) => Cardinality(Subsets(B, T, n)) = 1
Judge(rec) ==
  LET B == BOf(rec)  T == TOf(rec)  Ms == Matchings(B, T) IN
  Chk(~rec.panicked, "panic", "the extractor panicked: " \o rec.stderr,
  IF rec.exit # 0
  THEN \* a refusal is due exactly when no valid matching exists; the tool's greedy selection also refuses some
       \* matchable scenarios (recorded finding) - any other refusal of a matchable scenario is a violation
       IF Ms = {} THEN OkV
       ELSE LET ord == IF rec.order = 0 THEN [k \in DOMAIN B |-> k] ELSE [k \in DOMAIN B |-> Len(B) + 1 - k] IN
            IF GreedyCanFail(B, T, ord)
            THEN FailV("match", "[greedy-refuses-matchable] a scenario with a valid matching was refused: taking benefits in file order, each its closest-priced candidate set, leaves a later benefit without candidates: " \o rec.stderr)
            ELSE FailV("match", "a scenario with a valid matching was refused, although taking benefits in file order, each the candidate set whose share-weighted average price is closest to its sale price, matches them all: " \o rec.stderr)
  ELSE
  Chk(Ms # {}, "match", "no valid matching exists (a sell-to-cover cannot be matched) but rows were printed",
  Chk(\E M \in Ms : Explains(rec.out, Expected(B, T, M)), "match",
      "the printed rows are not those of any valid matching: each benefit once as a purchase, each sell-to-cover once with the sold shares, stated price and fee dated as a matched trade, every other trade once as a manual trade",
  Chk(\A m \in 1..(Len(rec.out) - 1) : rec.out[m].sd <= rec.out[m + 1].sd, "order", "rows are not ordered by settlement date",
  Chk(rec.refused = "", "accept", "acb does not accept the printed rows: " \o rec.refused,
  OkV)))))
Init == l = 1 /\ tally = [ok |-> 0, fail |-> 0, ambig |-> 0, skip |-> 0, steps |-> 0]
Next ==
  /\ l <= Len(Recs)
  /\ LET r == Judge(Recs[l]) IN
     /\ tally' = [tally EXCEPT ![r.v] = @ + 1, !.steps = @ + Len(Recs[l].out)]
     /\ (r.v = "fail" => PrintT("@@FAIL " \o ToJson([id |-> Recs[l].id, sec |-> "*", line |-> l, cls |-> r.cls, detail |-> r.detail])))
  /\ l' = l + 1
Spec == Init /\ [][Next]_vars
Done == l = Len(Recs) + 1
Summary == Done => PrintT("@@SUMMARY " \o ToJson(tally))
Accepted == TLCGet("stats").diameter >= Len(Recs) + 1
=============================================================================
