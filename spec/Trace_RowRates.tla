---------------------------- MODULE Trace_RowRates ----------------------------
(***************************************************************************)
(* The row-level half of property C12: which rate converts a row's amount  *)
(* and its commission.  An explicit rate in the row always wins; CAD needs *)
(* none and only accepts 1; USD without a rate takes the Bank of Canada    *)
(* rate for the row's TRADE date (Rates!Ref); any other currency without a *)
(* rate is an error; the commission currency defaults to the transaction   *)
(* currency (and its rate).  One trace line per run of acb over a few      *)
(* rows with the calendar served by the mock Bank of Canada.               *)
(***************************************************************************)
EXTENDS Rat, Dates, Sequences, FiniteSets, Json, IOUtils, TLC

Segs == ndJsonDeserialize(IOEnv.TRACE)
VARIABLES l, tally
vars == <<l, tally>>
R == INSTANCE Rates WITH YearOfDay <- YearOf, FirstDay <- FirstDayOfYear, LastDay <- LastDayOfYear,
                         Lookback <- 7, Revalidate <- TRUE
Eps == Eps9
D(x) == RDec(x.m, x.e)

CalDays(seg) == { seg.cal[n][1] : n \in DOMAIN seg.cal }
QuoteOf(seg, d) == LET c == seg.cal[CHOOSE n \in DOMAIN seg.cal : seg.cal[n][1] = d]
                   IN  IF c[3] THEN RDiv(ROne, D(c[2])) ELSE D(c[2])
Lo(seg) == (CHOOSE x \in CalDays(seg) \cup {seg.today} : \A y \in CalDays(seg) \cup {seg.today} : x <= y) - 40
Hi(seg) == (CHOOSE x \in CalDays(seg) \cup {seg.today} : \A y \in CalDays(seg) \cup {seg.today} : y <= x) + 40
World(seg) == [pub |-> [d \in Lo(seg)..Hi(seg) |-> IF d \in CalDays(seg) THEN d ELSE R!NoRate],
               today |-> seg.today, todayPub |-> FALSE, force |-> FALSE, wr |-> TRUE]

ErrRate == <<"error">>
BocRate(seg, td) == LET r == R!Ref(World(seg), td) IN IF r.kind = "rate" THEN QuoteOf(seg, r.day) ELSE ErrRate
RateFor(seg, cur, has, r, td) ==
  CASE cur = "" /\ has -> ErrRate                           \* a rate without a currency
    [] cur \in {"", "CAD"} -> IF has /\ ~REq(r, ROne) THEN ErrRate ELSE ROne
    [] has -> IF RPos(r) THEN r ELSE ErrRate
    [] cur = "USD" -> BocRate(seg, td)
    [] OTHER -> ErrRate
TxRate(seg, row) == RateFor(seg, row.cur, row.hasR, D(row.r), row.td)
CommRate(seg, row) ==
  IF row.ccur = "" /\ ~row.hasRc THEN TxRate(seg, row)
  ELSE RateFor(seg, row.ccur, row.hasRc, D(row.rc), row.td)
RowErr(seg, row) == TxRate(seg, row) = ErrRate \/ CommRate(seg, row) = ErrRate

FailV(cls, detail) == [v |-> "fail", cls |-> cls, detail |-> detail]
OkV == [v |-> "ok", cls |-> "", detail |-> ""]
Chk(cond, cls, detail, rest) == IF cond THEN rest ELSE FailV(cls, detail)
Judge(seg) ==
  LET bad == { n \in DOMAIN seg.rows : RowErr(seg, seg.rows[n]) }
  IN
  Chk(seg.status # "panic", "panic", seg.msg,
  IF bad # {} THEN Chk(seg.status = "error", "rowrate", "a row without a usable rate was accepted (row "
                          \o ToString(seg.rows[CHOOSE n \in bad : TRUE].idx) \o ")", OkV)
  ELSE
  Chk(seg.status = "ok", "rowrate", "rows with usable rates were refused: " \o seg.msg,
  \* (bookkeeping may stop early, e.g. at an over-sale: only the rows that were processed are judged)
  Chk(Len(seg.used) <= Len(seg.rows), "rowrate", "more transactions than rows",
  LET wrong == { n \in DOMAIN seg.used :
                   LET row == seg.rows[CHOOSE m \in DOMAIN seg.rows : seg.rows[m].idx = seg.used[n].idx]
                   IN  ~(RClose(D(seg.used[n].r), TxRate(seg, row), Eps) /\ RClose(D(seg.used[n].rc), CommRate(seg, row), Eps)) }
  IN Chk(wrong = {}, "rowrate", "row " \o ToString(seg.used[IF wrong = {} THEN 1 ELSE CHOOSE n \in wrong : TRUE].idx)
                        \o " was converted with another rate than the rules give", OkV))))

Init == l = 1 /\ tally = [ok |-> 0, fail |-> 0, ambig |-> 0, skip |-> 0, steps |-> 0]
Next ==
  /\ l <= Len(Segs)
  /\ LET r == Judge(Segs[l]) IN
     /\ tally' = [tally EXCEPT ![r.v] = @ + 1, !.steps = @ + Len(Segs[l].rows)]
     /\ (r.v = "fail" => PrintT("@@FAIL " \o ToJson([id |-> Segs[l].id, sec |-> "*", line |-> l, cls |-> r.cls, detail |-> r.detail])))
  /\ l' = l + 1
Spec == Init /\ [][Next]_vars
Done == l = Len(Segs) + 1
Summary == Done => PrintT("@@SUMMARY " \o ToJson(tally))
Accepted == TLCGet("stats").diameter >= Len(Segs) + 1
=============================================================================
