--------------------------- MODULE MC_RatSelfTest ---------------------------
(* Keeps the Java override of Rat honest: on a grid of small rationals every    *)
(* overridden operator must agree with the pure TLA+ definition (module RatDef, *)
(* a verbatim copy of Rat's definitions that has no override class).            *)
EXTENDS Rat, Integers, Sequences, TLC
D == INSTANCE RatDef
VARIABLE x
Grid == { RFrac(n, d) : n \in -7..7, d \in 1..6 }
NZ   == { a \in Grid : ~RIsZero(a) }
ASSUME \A a \in Grid : a = D!RFrac(a[1], a[2])
ASSUME \A a, b \in Grid :
        /\ RAdd(a, b) = D!RAdd(a, b)
        /\ RSub(a, b) = D!RSub(a, b)
        /\ RMul(a, b) = D!RMul(a, b)
        /\ REq(a, b) = D!REq(a, b)
        /\ RLt(a, b) = D!RLt(a, b)
        /\ RLe(a, b) = D!RLe(a, b)
        /\ RMin(a, b) = D!RMin(a, b)
        /\ RMax(a, b) = D!RMax(a, b)
        /\ RClose(a, b, RDec(5, 1)) = D!RClose(a, b, D!RDec(5, 1))
ASSUME \A a \in Grid, b \in NZ : RDiv(a, b) = D!RDiv(a, b)
ASSUME \A a \in Grid :
        /\ RNeg(a) = D!RNeg(a) /\ RAbs(a) = D!RAbs(a) /\ RSign(a) = D!RSign(a)
        /\ RIsInt(a) = D!RIsInt(a) /\ RIsZero(a) = D!RIsZero(a)
        /\ RPos(a) = D!RPos(a) /\ RNegative(a) = D!RNegative(a)
        /\ RRoundCents(a) = D!RRoundCents(a)
        /\ RRoundCents(RDiv(a, RN(200))) = D!RRoundCents(D!RDiv(a, D!RN(200)))
        /\ RIsDecimal(a, 3) = D!RIsDecimal(a, 3)
ASSUME \A m \in -50..50, e \in 0..4 : RDec(m, e) = D!RDec(m, e)
ASSUME \A a, b, c \in { RFrac(n, d) : n \in -3..3, d \in 1..3 } :
        RSumSeq(<<a, b, c>>) = D!RSumSeq(<<a, b, c>>)
\* rounding is half away from zero
ASSUME RRoundCents(RDec(1495, 3)) = RDec(150, 2) /\ RRoundCents(RDec(-1495, 3)) = RDec(-150, 2)
ASSUME RRoundCents(RDec(1494, 3)) = RDec(149, 2) /\ RRoundCents(RDec(5, 3)) = RDec(1, 2)
\* big values survive (override only): 10^30 / 10^29 = 10, and ordering across the int/string boundary
ASSUME RDiv(RDec("1000000000000000000000000000000", 0), RDec("100000000000000000000000000000", 0)) = RN(10)
ASSUME RLt(RN(2147483647), RAdd(RN(2147483647), ROne))
ASSUME ~REq(RN(5), RDec("1000000000000000000000000000000", 0)) /\ REq(RDec("50000000000000000000000", 22), RN(5))
ASSUME RSub(RAdd(RN(2147483647), ROne), ROne) = RN(2147483647)
ASSUME RClose(RDec("79228162514264337593543950335", 28), RDec("79228162514264337593543950334", 28), Eps9)
Init == x = 0
Next == x' = x
=============================================================================
