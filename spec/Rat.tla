-------------------------------- MODULE Rat --------------------------------
(***************************************************************************)
(* Exact rational arithmetic for the acb specification.                    *)
(*                                                                         *)
(* A rational is a pair <<n, d>> with d > 0 and gcd(|n|, d) = 1 (so that   *)
(* TLA+ equality is numeric equality).  The definitions below are the      *)
(* meaning of every operator.  TLC evaluates them through the Java module  *)
(* override Rat.class (BigInteger), which additionally accepts components  *)
(* that do not fit TLC's 32-bit integers; such components are carried as   *)
(* decimal strings.  spec/MC_RatSelfTest checks override = definition on a *)
(* grid, so the override is an accelerator, not part of the trusted base   *)
(* of the small-integer model-checking configurations.                     *)
(***************************************************************************)
EXTENDS Integers, Sequences, TLC

RECURSIVE RGcd(_, _)
RGcd(a, b) == IF b = 0 THEN a ELSE RGcd(b, a % b)
RAbsI(n)   == IF n < 0 THEN -n ELSE n

\* normalise n/d  (d # 0)
RNorm(n, d) ==
  LET s == IF d < 0 THEN -1 ELSE 1
      g == RGcd(RAbsI(n), RAbsI(d))
  IN  IF n = 0 THEN <<0, 1>> ELSE <<(s * n) \div g, (s * d) \div g>>

RZero == <<0, 1>>
ROne  == <<1, 1>>
RN(n) == <<n, 1>>                       \* integer -> rational
RFrac(n, d) == RNorm(n, d)              \* n/d, d # 0

RECURSIVE RPow10(_)
RPow10(e) == IF e = 0 THEN 1 ELSE 10 * RPow10(e - 1)
\* decimal with mantissa m (integer, or decimal string under the override) and scale e >= 0:  m / 10^e
RDec(m, e) == RNorm(m, RPow10(e))

RAdd(a, b) == RNorm(a[1] * b[2] + b[1] * a[2], a[2] * b[2])
RSub(a, b) == RNorm(a[1] * b[2] - b[1] * a[2], a[2] * b[2])
RMul(a, b) == RNorm(a[1] * b[1], a[2] * b[2])
RDiv(a, b) == RNorm(a[1] * b[2], a[2] * b[1])      \* b # 0
RNeg(a)    == <<-a[1], a[2]>>
RSign(a)   == IF a[1] > 0 THEN 1 ELSE IF a[1] < 0 THEN -1 ELSE 0
RAbs(a)    == IF a[1] < 0 THEN RNeg(a) ELSE a
RLt(a, b)  == a[1] * b[2] < b[1] * a[2]
RLe(a, b)  == a[1] * b[2] <= b[1] * a[2]
RMin(a, b) == IF RLe(a, b) THEN a ELSE b
RMax(a, b) == IF RLe(a, b) THEN b ELSE a
RIsInt(a)  == a[2] = 1
\* numeric equality; use this instead of = when a component may be carried as a string
REq(a, b)  == a = b
RIsZero(a) == a[1] = 0
RPos(a)    == a[1] > 0
RNegative(a) == a[1] < 0
\* |a - b| <= eps
RClose(a, b, eps) == RLe(RAbs(RSub(a, b)), eps)

RECURSIVE RSumSeq(_)
RSumSeq(s) == IF s = <<>> THEN RZero ELSE RAdd(Head(s), RSumSeq(Tail(s)))

\* round half away from zero to 2 decimal places (display rounding of dollar figures)
RFloorI(n, d) == IF n >= 0 THEN n \div d ELSE -((-n + d - 1) \div d)
RRoundCents(a) ==
  LET s == RSign(a)
      x == RAbs(a)
      \* floor(x*100 + 1/2) = floor((200 n + d) / (2 d))
      c == RFloorI(200 * x[1] + x[2], 2 * x[2])
  IN  RNorm(s * c, 100)

\* has a terminating decimal expansion with at most k places
RECURSIVE RStrip(_, _)
RStrip(d, p) == IF d % p = 0 THEN RStrip(d \div p, p) ELSE d
RIsDecimal(a, k) == /\ RStrip(RStrip(a[2], 2), 5) = 1
                    /\ RPow10(k) % a[2] = 0

\* debugging aid (override renders big values too)
RStr(a) == ToString(a[1]) \o "/" \o ToString(a[2])

Eps9 == RDec(1, 9)                      \* 1e-9, the band of property C01
=============================================================================
