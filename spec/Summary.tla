------------------------------- MODULE Summary -------------------------------
(***************************************************************************)
(* acb --summarize-before D (property C10): replace the part of a          *)
(* security's history settling on or before D by a few summary rows such   *)
(* that the rows settling after D are reported exactly as before.          *)
(*                                                                         *)
(* The operators below transcribe summary.rs step for step                 *)
(* (get_summary_range_delta_indicies, make_simple_summary_txs,             *)
(* make_annual_gains_summary_txs, the re-emission of unsummarisable rows   *)
(* with explicit superficial losses) over the specification's own ledger   *)
(* (module Ledger), so that TLC can search for histories and dates for     *)
(* which the ALGORITHM does not round-trip (MC_Summary), and the summary   *)
(* rows acb generates can be compared with the specified ones.             *)
(*                                                                         *)
(* A "delta" is what acb's ledger reports per processed transaction:       *)
(* [row, af, sd, inj, S (state after it), hasGain, gain, sfl, superficial] *)
(* - the automatic SfLA adjustments of a sale are deltas of their own,     *)
(* placed after the sale in affiliate-id order.                            *)
(***************************************************************************)
EXTENDS Ledger, Tx, Dates

SflaRowFor(t, x) ==        \* the automatic adjustment row acb generates for adjustment x of sale t
  [t EXCEPT !.act = "Sfla", !.af = x.af, !.q = ROne, !.p = x.amt, !.c = RZero, !.r = ROne, !.rc = ROne,
            !.hasSfl = FALSE, !.sflv = RZero, !.force = FALSE]

\* affiliate ids in increasing order; IdLess is the order on ids supplied by the user of this module
CONSTANT IdLess(_, _)
SortedAdj(adj) == SortSeq(SetToSeq(adj), LAMBDA x, y : IdLess(x.af, y.af))

RECURSIVE DeltasFrom(_, _, _, _)
DeltasFrom(R, REG, S0, k) ==
  IF k > Len(R) THEN <<>>
  ELSE LET s == Step(S0, REG, R, k) IN
       IF ~s.ok THEN <<[row |-> R[k], af |-> R[k].af, sd |-> R[k].sd, inj |-> FALSE, ok |-> FALSE, S |-> S0,
                        hasGain |-> FALSE, gain |-> RZero, sfl |-> RZero, superficial |-> FALSE]>>
       ELSE LET main == [row |-> R[k], af |-> R[k].af, sd |-> R[k].sd, inj |-> FALSE, ok |-> TRUE, S |-> s.S,
                         hasGain |-> s.hasGain, gain |-> s.gain, sfl |-> s.sfl, superficial |-> s.superficial]
                adjs == SortedAdj(s.adj)
                RECURSIVE AdjDeltas(_, _)
                AdjDeltas(n, Sn) ==
                  IF n > Len(adjs) THEN <<>>
                  ELSE LET S2 == ApplyAdj(Sn, {adjs[n]})
                       IN  <<[row |-> SflaRowFor(R[k], adjs[n]), af |-> adjs[n].af, sd |-> R[k].sd, inj |-> TRUE, ok |-> TRUE,
                              S |-> S2, hasGain |-> FALSE, gain |-> RZero, sfl |-> RZero, superficial |-> FALSE]>>
                           \o AdjDeltas(n + 1, S2)
            IN  <<main>> \o AdjDeltas(1, s.S) \o DeltasFrom(R, REG, ApplyAdj(s.S, s.adj), k + 1)
Deltas(R, REG, S0) == DeltasFrom(R, REG, S0, 1)
AllOk(D) == \A n \in DOMAIN D : D[n].ok
IsSfl(d) == d.superficial /\ ~RIsZero(d.sfl)
\* LossSalesToo = TRUE (repaired): a sale at a loss keeps earlier rows within its 30-day window from
\* being summarised whether or not the loss is superficial in the full history (a summary purchase
\* placed inside that window would make it superficial); FALSE: only superficial losses do (as found)
CONSTANT LossSalesToo
Blocks(d) == IsSfl(d) \/ (LossSalesToo /\ d.row.act = "Sell" /\ d.hasGain /\ RNegative(d.gain))

(***************************************************************************)
(* get_summary_range_delta_indicies                                        *)
(***************************************************************************)
MaxSet(T) == CHOOSE x \in T : \A y \in T : y <= x
MinSet(T) == CHOOSE x \in T : \A y \in T : x <= y
LatestInRange(D, cut) == LET T == { n \in DOMAIN D : D[n].sd <= cut } IN IF T = {} THEN 0 ELSE MaxSet(T)
\* step 3: walk back from the latest delta in range
RECURSIVE WalkBack(_, _, _)
WalkBack(D, n, fsd) ==
  IF n = 0 THEN 0
  ELSE IF D[n].sd < fsd THEN n
  ELSE WalkBack(D, n - 1, IF Blocks(D[n]) THEN D[n].sd - Window ELSE fsd)
\* 0 = nothing can be summarised
LatestSummarizable(D, cut) ==
  LET latest == LatestInRange(D, cut)
      later == { n \in DOMAIN D : n > latest /\ Blocks(D[n]) }
  IN  IF latest = 0 THEN 0
      ELSE IF later = {} THEN latest
      ELSE LET fsd == D[MinSet(later)].sd - Window
           IN  IF D[latest].sd >= fsd THEN WalkBack(D, latest, fsd) ELSE latest

(***************************************************************************)
(* summary rows                                                            *)
(***************************************************************************)
BlankRow(af, sd) ==
  [act |-> "Buy", af |-> af, sd |-> sd, td |-> sd, idx |-> 0, q |-> RZero, p |-> RZero, c |-> RZero, r |-> ROne, rc |-> ROne,
   hasSfl |-> FALSE, sflv |-> RZero, force |-> FALSE, post |-> ROne, pre |-> ROne, intOnly |-> FALSE, grp |-> FALSE]
AffilsUpTo(D, m) == { D[n].af : n \in 1..m }
LastOf(D, m, af) == MaxSet({ n \in 1..m : D[n].af = af })

\* a cost base without shares (an adjustment dated before the purchase it is due to) cannot be a
\* purchase: it is carried over as an explicit adjustment (CarryShareless = FALSE: dropped, as found)
CONSTANT CarryShareless
SharelessAcb(d, REG, af) ==
  IF CarryShareless /\ ~REG[af] /\ RIsZero(d.S.sh[af]) /\ RPos(d.S.acb[af])
  THEN <<[BlankRow(af, d.sd) EXCEPT !.act = "Sfla", !.q = ROne, !.p = d.S.acb[af]]>> ELSE <<>>

SimpleRows(D, REG, m, af) ==
  LET d == D[LastOf(D, m, af)]
      sh == d.S.sh[af]
  IN  IF RPos(sh)
      THEN <<[BlankRow(af, d.sd) EXCEPT !.q = sh, !.p = IF REG[af] THEN RZero ELSE RDiv(d.S.acb[af], sh)]>>
      ELSE SharelessAcb(d, REG, af)

\* annual mode: a base purchase on Jan 1 of the year before the first year, then per year with a net
\* gain or loss one sale of one share on Jan 1 of that year realising exactly that gain / loss
YearsWithGains(D, m, af) ==
  { YearOf(D[n].sd) : n \in { n \in 1..LastOf(D, m, af) : D[n].af = af /\ D[n].hasGain /\ ~RIsZero(D[n].gain) } }
YearGain(D, m, af, y) ==
  RSumOver({ n \in 1..LastOf(D, m, af) : D[n].af = af /\ D[n].hasGain /\ YearOf(D[n].sd) = y }, LAMBDA n : D[n].gain)
AnnualRows(D, REG, m, af) ==
  LET d == D[LastOf(D, m, af)]
      sh == d.S.sh[af]
      ys == IF REG[af] THEN {} ELSE YearsWithGains(D, m, af)
      yseq == SortSeq(SetToSeq(ys), <)
      aps == IF REG[af] THEN RZero ELSE IF RPos(sh) THEN RDiv(d.S.acb[af], sh) ELSE RZero
      nbase == RAdd(sh, RN(Cardinality(ys)))
      firstYear == YearOf(D[1].sd)
      base == IF RPos(nbase)
              THEN <<[BlankRow(af, FirstDayOfYear(firstYear - 1)) EXCEPT !.q = nbase, !.p = aps]>> ELSE <<>>
      sells == [k \in DOMAIN yseq |->
                  LET g == YearGain(D, m, af, yseq[k]) IN
                  [BlankRow(af, FirstDayOfYear(yseq[k])) EXCEPT !.act = "Sell", !.q = ROne,
                      !.p = IF RNegative(g) THEN aps ELSE RAdd(aps, g), !.c = IF RNegative(g) THEN RNeg(g) ELSE RZero]]
  IN  base \o sells \o SharelessAcb(d, REG, af)

\* rows of the summary period that cannot be summarised are re-emitted, sales carrying their
\* superficial loss explicitly (the automatic adjustment rows are then explicit rows too)
\* (a value the user forced stays forced - repaired; it used to come back unforced and be refused on re-reading)
Reemit(d) == IF d.row.act = "Sell" /\ IsSfl(d) THEN [d.row EXCEPT !.hasSfl = TRUE, !.sflv = d.sfl, !.force = d.row.hasSfl /\ d.row.force] ELSE d.row

SummaryRows(D, REG, cut, annual) ==
  LET latest == LatestInRange(D, cut)
      m == LatestSummarizable(D, cut)
      afs == SortSeq(SetToSeq(AffilsUpTo(D, m)), IdLess)
      RECURSIVE PerAf(_)
      PerAf(k) == IF k > Len(afs) THEN <<>>
                  ELSE (IF annual THEN AnnualRows(D, REG, m, afs[k]) ELSE SimpleRows(D, REG, m, afs[k])) \o PerAf(k + 1)
      gen == PerAf(1)
      \* sorted by settlement day, ties in generation order
      sorted == Order([k \in DOMAIN gen |-> [gen[k] EXCEPT !.idx = k]])
      unsum == [k \in 1..(latest - m) |-> Reemit(D[m + k])]
  IN  IF latest = 0 THEN <<>> ELSE sorted \o unsum

\* the input that replaces the history: summary rows, then the original rows settling after the date
Replacement(R, D, REG, cut, annual) ==
  LET rows == SummaryRows(D, REG, cut, annual) \o SelectSeq(R, LAMBDA t : t.sd > cut)
  IN  [k \in DOMAIN rows |-> [rows[k] EXCEPT !.idx = k]]

(***************************************************************************)
(* the round trip                                                          *)
(***************************************************************************)
TailOf(D, cut) == SelectSeq(D, LAMBDA d : d.sd > cut)
SameDelta(x, y) ==
  /\ x.ok = y.ok /\ x.af = y.af /\ x.inj = y.inj /\ x.hasGain = y.hasGain /\ x.gain = y.gain /\ x.sfl = y.sfl
  /\ x.superficial = y.superficial /\ x.S.sh = y.S.sh /\ x.S.acb = y.S.acb /\ x.S.all = y.S.all
RoundTrip(R, REG, S0, AFS, cut, annual) ==
  LET D == Deltas(R, REG, S0)
      R2 == Prepare(Replacement(R, D, REG, cut, annual), FALSE)
      D2 == Deltas(R2, REG, InitState(AFS))
      ta == TailOf(D, cut)
      tb == TailOf(D2, cut)
  IN  /\ AllOk(D2)
      /\ Len(ta) = Len(tb) /\ \A n \in DOMAIN ta : SameDelta(ta[n], tb[n])
      /\ (D # <<>> /\ D2 # <<>> => D[Len(D)].S.sh = D2[Len(D2)].S.sh /\ D[Len(D)].S.acb = D2[Len(D2)].S.acb)
=============================================================================
