----------------------------- MODULE Trace_Pair -----------------------------
(***************************************************************************)
(* Relational validation of paired executions of the real code (C15, C16,  *)
(* C08, C07).  Each line of the trace (env TRACE) holds two recorded       *)
(* segments a and b (same format as Trace_Ledger's) and the relation that  *)
(* is claimed between them:                                                *)
(*   kind "same"     b's input is a's input in a context that must not     *)
(*                   matter; every reported figure must be identical;      *)
(*   kind "opening"  a has an opening position, b instead starts with the  *)
(*                   equivalent purchase by the default affiliate;         *)
(*   kind "split"    b is a with a post-for-pre split inserted before row  *)
(*                   k and later rows restated.                            *)
(* The relation between the two INPUTS is checked here too, so the         *)
(* harness's derivation of b from a is not trusted.  Both segments are     *)
(* separately validated against the ledger rules by Trace_Ledger.          *)
(***************************************************************************)
EXTENDS Ledger, Tx, Dates, Json, IOUtils

Pairs == ndJsonDeserialize(IOEnv.TRACE)
VARIABLES l, tally
vars == <<l, tally>>

Eps  == Eps9
Eps2 == RDec(2, 9)
D(x) == RDec(x.m, x.e)

FailV(cls, detail) == [v |-> "fail", cls |-> cls, detail |-> detail]
OkV == [v |-> "ok", cls |-> "", detail |-> ""]
Chk(cond, cls, detail, rest) == IF cond THEN rest ELSE FailV(cls, detail)

\* first index in 1..n where pred fails, 0 if none
FirstBad(n, pred(_)) == LET bad == { k \in 1..n : ~pred(k) } IN IF bad = {} THEN 0 ELSE CHOOSE k \in bad : \A j \in bad : k <= j

\* The per-affiliate copies of one split for all affiliates may be processed in any order (the
\* order is immaterial to every later figure); within such a group deltas are matched by
\* affiliate, and the all-affiliate balance is compared at the end of the group only.
RECURSIVE Lead(_, _)
Lead(ds, n) == IF n > 1 /\ ds[n].act = "Split" /\ ds[n - 1].act = "Split" /\ ds[n - 1].idx = ds[n].idx
               THEN Lead(ds, n - 1) ELSE n
Group(ds, n) == { j \in DOMAIN ds : Lead(ds, j) = Lead(ds, n) }
Partner(as, bs, n) ==     \* index in bs of the delta that corresponds to as[n] (0 if none)
  LET g == { j \in Group(bs, n) : bs[j].af = as[n].af }
  IN  IF Cardinality(Group(as, n)) = 1 \/ n > Len(bs) THEN n
      ELSE IF g = {} THEN 0 ELSE CHOOSE j \in g : TRUE
SameFiguresG(x, y, f, cmpAll) ==       \* delta x of a against delta y of b; share counts of b are f times a's
  /\ x.act = y.act /\ x.af = y.af /\ x.inj = y.inj
  /\ RClose(RMul(D(x.sh), f), D(y.sh), Eps) /\ (cmpAll => RClose(RMul(D(x.all), f), D(y.all), Eps))
  /\ x.hasAcb = y.hasAcb /\ RClose(D(x.acb), D(y.acb), Eps2)
  /\ x.hasGain = y.hasGain /\ RClose(D(x.gain), D(y.gain), Eps2)
  /\ x.hasSfl = y.hasSfl /\ RClose(D(x.sfl), D(y.sfl), Eps2) /\ (x.hasSfl => x.over = y.over)
  /\ (x.act = "Sfla" /\ x.inj => RClose(D(x.amt), D(y.amt), Eps2))
\* as[n] against its partner in bs
SameAt(as, bs, n, f) ==
  LET m == Partner(as, bs, n)
      last == \A j \in Group(as, n) : j <= n
  IN  /\ m # 0 /\ m <= Len(bs)
      /\ SameFiguresG(as[n], bs[m], f, Cardinality(Group(as, n)) = 1)
      /\ (last /\ n <= Len(bs) => RClose(RMul(D(as[n].all), f), D(bs[n].all), Eps))

SameRowInput(x, y) ==
  /\ x.act = y.act /\ x.af = y.af /\ x.sd = y.sd /\ x.td = y.td
  /\ REq(D(x.q), D(y.q)) /\ REq(D(x.p), D(y.p)) /\ REq(D(x.c), D(y.c)) /\ REq(D(x.r), D(y.r)) /\ REq(D(x.rc), D(y.rc))
  /\ x.hasSfl = y.hasSfl /\ REq(D(x.sflv), D(y.sflv)) /\ x.force = y.force
  /\ REq(D(x.post), D(y.post)) /\ REq(D(x.pre), D(y.pre)) /\ x.intOnly = y.intOnly

DescribeDelta(x) == x.act \o " " \o x.af \o " (row " \o ToString(x.idx) \o ")"

RECURSIVE DropTrailingSplits(_)
DropTrailingSplits(ds) == IF ds # <<>> /\ ds[Len(ds)].act = "Split" THEN DropTrailingSplits(SubSeq(ds, 1, Len(ds) - 1)) ELSE ds

(* ---- same ---- *)
JudgeSame(p) ==
  LET a == p.a  b == p.b IN
  \* the two inputs give this security the same rows in the same processing order (settlement day,
  \* then position in the concatenated input)
  Chk(Len(a.rows) = Len(b.rows) /\ \A n \in DOMAIN a.rows : SameRowInput(Order(a.rows)[n], Order(b.rows)[n]), "harness", "inputs differ",
  Chk(a.status = b.status, p.cls, "one run ended " \o a.status \o ", the other " \o b.status,
  LET ad == IF a.status = "ok" THEN a.deltas ELSE DropTrailingSplits(a.deltas)
      bd == IF a.status = "ok" THEN b.deltas ELSE DropTrailingSplits(b.deltas) IN
  Chk(Len(ad) = Len(bd), p.cls, "different number of reported transactions",
  LET k == FirstBad(Len(ad), LAMBDA n : SameAt(ad, bd, n, ROne)) IN
  Chk(k = 0, p.cls, "figures differ at " \o DescribeDelta(ad[IF k = 0 THEN 1 ELSE k]), OkV))))

(* ---- opening ---- *)
JudgeOpening(p) ==
  LET a == p.a  b == p.b IN
  Chk(/\ a.opening.has /\ ~b.opening.has /\ Len(b.rows) = Len(a.rows) + 1
      /\ b.rows[1].act = "Buy" /\ b.rows[1].af = DefaultAf /\ REq(D(b.rows[1].q), D(a.opening.n))
      /\ RIsZero(D(b.rows[1].p)) /\ REq(D(b.rows[1].c), D(a.opening.c)) /\ REq(D(b.rows[1].rc), ROne)
      /\ \A n \in DOMAIN a.rows : b.rows[1].sd < a.rows[n].sd - 30 /\ b.rows[1].sd < a.rows[n].td - 30
      /\ \A n \in DOMAIN a.rows : SameRowInput(a.rows[n], b.rows[n + 1]),
      "harness", "b is not a with the opening position turned into a purchase",
  Chk(b.status = a.status, "opening", "with the opening position the run ended " \o a.status \o ", with the purchase " \o b.status,
  IF a.status \in {"skipped", "error"} THEN OkV ELSE
  \* a rejected run may stop inside the copies of a split for all affiliates, whose order is
  \* immaterial: the copies already shown at that point are not compared
  LET ad == IF a.status = "ok" THEN a.deltas ELSE DropTrailingSplits(a.deltas)
      bd == IF a.status = "ok" THEN Tail(b.deltas) ELSE DropTrailingSplits(Tail(b.deltas))
      k == FirstBad(IF Len(ad) < Len(bd) THEN Len(ad) ELSE Len(bd), LAMBDA j : SameAt(ad, bd, j, ROne)) IN
  Chk(Len(b.deltas) >= 1 /\ Len(bd) = Len(ad), "opening", "different number of reported transactions",
  Chk(k = 0, "opening", "figures differ at " \o DescribeDelta(ad[IF k = 0 THEN 1 ELSE k]), OkV))))

(* ---- split ---- *)
NonSplit(ds) == SelectSeq(ds, LAMBDA x : x.act # "Split")
\* number of non-split deltas of b reported before its first Split delta
BeforeSplit(ds) ==
  LET s == { n \in DOMAIN ds : ds[n].act = "Split" }
  IN  IF s = {} THEN Len(ds) ELSE (CHOOSE n \in s : \A j \in s : n <= j) - 1
ScaledInput(x, y, f) ==       \* row y of b is row x of a restated by factor f
  /\ x.act = y.act /\ x.af = y.af /\ x.sd = y.sd /\ REq(D(x.c), D(y.c)) /\ REq(D(x.r), D(y.r)) /\ REq(D(x.rc), D(y.rc))
  /\ CASE x.act \in {"Buy", "Sell", "Sfla"} -> REq(D(y.q), RMul(D(x.q), f)) /\ REq(D(y.p), RDiv(D(x.p), f))
       [] x.act = "Roc" -> REq(D(y.p), RDiv(D(x.p), f))
       [] OTHER -> TRUE
JudgeSplit(p) ==
  LET a == p.a  b == p.b
      f == RDiv(D(p.post), D(p.pre))
      br == SelectSeq(b.rows, LAMBDA x : x.act # "Split")
      bs == SelectSeq(b.rows, LAMBDA x : x.act = "Split")
      bd == NonSplit(b.deltas)
      nb == BeforeSplit(b.deltas)
  IN
  Chk(/\ Len(br) = Len(a.rows) /\ Len(bs) >= 1
      /\ \A n \in DOMAIN bs : REq(D(bs[n].post), D(p.post)) /\ REq(D(bs[n].pre), D(p.pre)) /\ ~bs[n].intOnly
      /\ \A n \in DOMAIN a.rows : \A x \in {a.rows[n]} :
            LET y == br[n] IN IF n <= p.k THEN SameRowInput(x, y) ELSE ScaledInput(x, y, f)
      /\ a.opening.has = b.opening.has /\ REq(D(a.opening.n), D(b.opening.n)) /\ REq(D(a.opening.c), D(b.opening.c)),
      "harness", "b is not a with a split inserted and later rows restated",
  Chk(a.status = "ok", "harness", "base history was rejected",
  Chk(b.status = "ok", "split", "history with the split ended " \o b.status \o ": " \o b.msg,
  Chk(Len(bd) = Len(a.deltas), "split", "different number of reported transactions",
  LET k == FirstBad(Len(bd), LAMBDA n : SameAt(a.deltas, bd, n, IF n > nb THEN f ELSE ROne)) IN
  Chk(k = 0, "split", "figures differ at " \o DescribeDelta(a.deltas[IF k = 0 THEN 1 ELSE k])
                       \o (IF k > nb THEN " (after the split)" ELSE " (before the split)"), OkV)))))

(* ---- aggsum: the report of a whole input against the reports of its parts ---- *)
V(o) == D(o.v)
OptSame(x, y) == x.has = y.has /\ (x.has => REq(V(x), V(y)))
YearsSet(f) == { f.years[n][1] : n \in DOMAIN f.years }
YearVal(f, y) == V(f.years[CHOOSE n \in DOMAIN f.years : f.years[n][1] = y][2])
RowSame(x, y) ==
  /\ x.act = y.act /\ x.sd = y.sd /\ x.td = y.td /\ x.af = y.af
  /\ (x.act # "Split" => /\ OptSame(x.amount, y.amount) /\ OptSame(x.acbOfSale, y.acbOfSale) /\ OptSame(x.comm, y.comm)
                          /\ OptSame(x.gain, y.gain) /\ OptSame(x.sfl, y.sfl) /\ x.over = y.over
                          /\ OptSame(x.acbDelta, y.acbDelta) /\ OptSame(x.newAcb, y.newAcb) /\ OptSame(x.acbPerShare, y.acbPerShare))
TableSame(t, u) ==
  LET tr == IF t.errors = <<>> THEN t.rows ELSE DropTrailingSplits(t.rows)
      ur == IF t.errors = <<>> THEN u.rows ELSE DropTrailingSplits(u.rows)
  IN
  \* (a rejection raised by one of the per-affiliate copies of a split names whichever copy was
  \* processed first, so the wording is not compared - only whether the security was rejected)
  /\ Len(t.errors) = Len(u.errors)
  /\ Len(tr) = Len(ur)
  \* (the copies of one split for all affiliates may come in any order: only their presence is compared here)
  /\ \A n \in DOMAIN tr : IF tr[n].act = "Split" THEN ur[n].act = "Split" /\ ur[n].sd = tr[n].sd ELSE RowSame(tr[n], ur[n])
  /\ OptSame(t.total, u.total) /\ YearsSet(t) = YearsSet(u) /\ Len(t.years) = Len(u.years)
  /\ \A y \in YearsSet(t) : REq(YearVal(t, y), YearVal(u, y))
RSumIdx(T, f(_)) ==
  LET RECURSIVE go(_)
      go(U) == IF U = {} THEN RZero ELSE LET x == CHOOSE x \in U : TRUE IN RAdd(f(x), go(U \ {x}))
  IN go(T)
JudgeAggSum(p) ==
  LET W == p.whole
      PartOf(sec) == { <<k, n>> \in (DOMAIN p.parts) \X (1..20) : n \in DOMAIN p.parts[k].secs /\ p.parts[k].secs[n].sec = sec }
      \* the parts' OWN totals: the yearly figures and totals under the tables of their securities that completed
      Own == { <<k, n>> \in (DOMAIN p.parts) \X (1..20) : n \in DOMAIN p.parts[k].secs /\ p.parts[k].secs[n].errors = <<>> }
      OwnT(kn) == p.parts[kn[1]].secs[kn[2]]
      ys == UNION { YearsSet(OwnT(kn)) : kn \in Own }
      YearOr0(f, y) == IF y \in YearsSet(f) THEN YearVal(f, y) ELSE RZero
      bad == { n \in DOMAIN W.secs :
                 ~(Cardinality(PartOf(W.secs[n].sec)) = 1 /\
                   \A kn \in PartOf(W.secs[n].sec) : TableSame(p.parts[kn[1]].secs[kn[2]], W.secs[n])) }
  IN
  Chk(bad = {}, p.cls, "the table of " \o W.secs[IF bad = {} THEN 1 ELSE CHOOSE n \in bad : TRUE].sec
                         \o " differs between the whole input and the part that contains it",
  Chk(YearsSet(W.agg) \subseteq ys, p.cls, "aggregate gains list a year in which no security of the input has a figure",
  Chk(\A y \in ys : RClose(YearOr0(W.agg, y), RSumIdx(Own, LAMBDA kn : YearOr0(OwnT(kn), y)), Eps),
      p.cls, "aggregate yearly gains are not the sum of the securities' own yearly totals",
  Chk(RClose(V(W.agg.total), RSumIdx(Own, LAMBDA kn : V(OwnT(kn).total)), Eps),
      p.cls, "aggregate total is not the sum of the securities' own totals", OkV))))

(* ---- summary: the full history against (summary rows + rows settling after the date) ---- *)
\* (a split for all affiliates is reported once per affiliate that has rows; an affiliate that holds
\* nothing and has been summarised away gets no copy - such no-op copies are left out of the comparison)
NoOpSplit(x) == x.act = "Split" /\ RIsZero(D(x.sh)) /\ RIsZero(D(x.preSh))
TailD(ds, cut) == SelectSeq(ds, LAMBDA x : x.sd > cut /\ ~NoOpSplit(x))
HeadD(ds, cut) == SelectSeq(ds, LAMBDA x : x.sd <= cut)
AfsIn(ds) == { ds[n].af : n \in DOMAIN ds }
LastFor(ds, af) == ds[CHOOSE n \in DOMAIN ds : ds[n].af = af /\ \A m \in DOMAIN ds : ds[m].af = af => m <= n]
GainSum(ds, af, y) ==
  LET T == { n \in DOMAIN ds : ds[n].af = af /\ ds[n].hasGain /\ YearOf(ds[n].sd) = y }
      RECURSIVE go(_)
      go(U) == IF U = {} THEN RZero ELSE LET x == CHOOSE x \in U : TRUE IN RAdd(D(ds[x].gain), go(U \ {x}))
  IN go(T)
\* recorded, unrepaired defect (known_findings.json): in annual mode the synthetic sale that carries a
\* loss year is dated Jan 1 and can itself be made superficial by a purchase after the summary date
AnnualSyntheticSfl(p) ==
  p.annual /\ \E n \in DOMAIN p.b.deltas :
     LET x == p.b.deltas[n] IN
     x.sd <= p.cut /\ x.act = "Sell" /\ x.hasSfl /\ x.sd = x.td /\ x.sd = FirstDayOfYear(YearOf(x.sd))
Tag(p) == IF AnnualSyntheticSfl(p) THEN "[annual-synthetic-loss-superficial] " ELSE ""
JudgeSummary(p) ==
  LET a == p.a  b == p.b
      ta == TailD(a.deltas, p.cut)
      tb == TailD(b.deltas, p.cut)
      k == FirstBad(IF Len(ta) < Len(tb) THEN Len(ta) ELSE Len(tb), LAMBDA n : SameAt(ta, tb, n, ROne))
      afs == AfsIn(a.deltas)
      holdBad == { af \in afs :
                    LET x == LastFor(a.deltas, af) IN
                    IF af \in AfsIn(b.deltas)
                    THEN LET y == LastFor(b.deltas, af) IN
                         ~(RClose(D(x.sh), D(y.sh), Eps) /\ x.hasAcb = y.hasAcb /\ RClose(D(x.acb), D(y.acb), Eps2))
                    ELSE ~(RIsZero(D(x.sh)) /\ RClose(D(x.acb), RZero, Eps2)) }
      years == { YearOf(a.deltas[n].sd) : n \in { n \in DOMAIN a.deltas : a.deltas[n].sd <= p.cut } }
      yearBad == { <<af, y>> \in afs \X years :
                    ~RClose(GainSum(HeadD(a.deltas, p.cut), af, y), GainSum(HeadD(b.deltas, p.cut), af, y), RMul(Eps2, RN(Len(a.deltas) + 1))) }
  IN
  Chk(a.status = "ok", "harness", "the full history was rejected",
  Chk(b.status = "ok", "summary", Tag(p) \o "the summary CSV followed by the later rows ended " \o b.status \o ": " \o b.msg,
  Chk(Len(ta) = Len(tb), "summary", Tag(p) \o "different number of transactions reported after the summary date",
  Chk(k = 0, "summary", Tag(p) \o "a row settling after the summary date is reported differently: " \o DescribeDelta(ta[IF k = 0 THEN 1 ELSE k]),
  Chk(holdBad = {}, "summary", Tag(p) \o "final holdings differ for " \o (IF holdBad = {} THEN "" ELSE CHOOSE af \in holdBad : TRUE),
  Chk(~p.annual \/ yearBad = {}, "summary", Tag(p) \o "a past year's net capital gain is not reproduced by the summary rows",
  OkV))))))

Judge(p) ==
  CASE p.kind = "same" -> JudgeSame(p)
    [] p.kind = "summary" -> JudgeSummary(p)
    [] p.kind = "aggsum" -> JudgeAggSum(p)
    [] p.kind = "opening" -> JudgeOpening(p)
    [] p.kind = "split" -> JudgeSplit(p)
    [] OTHER -> FailV("harness", "unknown relation " \o p.kind)

Init == l = 1 /\ tally = [ok |-> 0, fail |-> 0, ambig |-> 0, skip |-> 0, steps |-> 0]
Next ==
  /\ l <= Len(Pairs)
  /\ LET r == Judge(Pairs[l]) IN
     /\ tally' = [tally EXCEPT ![r.v] = @ + 1, !.steps = @ + Len(Pairs[l].a.deltas)]
     /\ (r.v = "fail" => PrintT("@@FAIL " \o ToJson([id |-> Pairs[l].id, sec |-> Pairs[l].a.sec, line |-> l, cls |-> r.cls,
                                                      detail |-> Pairs[l].kind \o ": " \o r.detail])))
  /\ l' = l + 1
Spec == Init /\ [][Next]_vars
Done == l = Len(Pairs) + 1
Summary == Done => PrintT("@@SUMMARY " \o ToJson(tally))
Accepted == TLCGet("stats").diameter >= Len(Pairs) + 1
=============================================================================
