--------------------------------- MODULE Tx ---------------------------------
(***************************************************************************)
(* From input rows to the per-security processing order (properties C07,   *)
(* C15, C16): rows are processed per security in settlement-date order,    *)
(* ties broken by position in the concatenated input (the read index);     *)
(* a split row that names no affiliate applies to every affiliate of the   *)
(* security and is replaced, in place, by one split row per affiliate      *)
(* (marked grp = TRUE; rows carry grp = FALSE otherwise).                  *)
(***************************************************************************)
EXTENDS Integers, Sequences, FiniteSets, SequencesExt, TLC

GlobalAf  == "__global__"
DefaultAf == "default"

RowLess(a, b) == a.sd < b.sd \/ (a.sd = b.sd /\ a.idx < b.idx)
Order(rows)   == SortSeq(rows, RowLess)

\* affiliates a global split applies to: every affiliate that has rows of this security, plus the
\* default affiliate when the security has an opening position (it holds those shares);
\* the default affiliate alone when nobody is named at all
SplitTargets(rows, hasOpening) ==
  LET named == { rows[j].af : j \in { j \in DOMAIN rows : rows[j].af # GlobalAf } }
      t == named \cup (IF hasOpening THEN {DefaultAf} ELSE {})
  IN  IF t = {} THEN {DefaultAf} ELSE t

\* a sequence enumerating a finite set (order irrelevant to the ledger: the per-affiliate rows of
\* one global split touch disjoint parts of the state)
RECURSIVE SetSeq(_)
SetSeq(T) == IF T = {} THEN <<>> ELSE LET x == CHOOSE x \in T : TRUE IN <<x>> \o SetSeq(T \ {x})

RECURSIVE ExpandFrom(_, _, _)
ExpandFrom(rows, k, tg) ==
  IF k > Len(rows) THEN <<>>
  ELSE LET t == rows[k]
       IN  (IF t.act = "Split" /\ t.af = GlobalAf
            THEN [n \in 1..Len(tg) |-> [t EXCEPT !.af = tg[n], !.grp = TRUE]]
            ELSE <<t>>) \o ExpandFrom(rows, k + 1, tg)

\* Input validation ahead of the bookkeeping (splits.rs): a split for all affiliates that stands within one
\* day (trade dates) of an affiliate-specific split of the same security is taken for a duplicated entry
\* and the run is refused.  The scan walks the ordered rows away from the global split and stops at the
\* first row whose trade date is more than a day off, whatever that row is.
IsGlobSplit(t) == t.act = "Split" /\ t.af = GlobalAf
IsAffSplit(t)  == t.act = "Split" /\ t.af # GlobalAf
NearBack(o, i) == \E k \in 1..(i - 1) : IsAffSplit(o[k]) /\ \A j \in k..(i - 1) : o[i].td - o[j].td <= 1
NearFwd(o, i)  == \E k \in (i + 1)..Len(o) : IsAffSplit(o[k]) /\ \A j \in (i + 1)..k : o[j].td - o[i].td <= 1
DupSplit(rows) == LET o == Order(rows) IN \E i \in DOMAIN o : IsGlobSplit(o[i]) /\ (NearBack(o, i) \/ NearFwd(o, i))
\* a sufficient condition the input generators use: no affiliate-specific split within a day of a global one
NoSplitWithinADay(rows) ==
  \A i, k \in DOMAIN rows : (IsGlobSplit(rows[i]) /\ IsAffSplit(rows[k])) =>
     (rows[i].td - rows[k].td > 1 \/ rows[k].td - rows[i].td > 1)

\* processing order of one security's rows (given in any order, each carrying its read index)
Prepare(rows, hasOpening) ==
  LET o == Order(rows) IN ExpandFrom(o, 1, SetSeq(SplitTargets(o, hasOpening)))
=============================================================================
