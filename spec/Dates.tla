------------------------------- MODULE Dates -------------------------------
(* Calendar arithmetic on day numbers (days since 1970-01-01, proleptic Gregorian).      *)
EXTENDS Integers
\* civil-from-days (days -> year), valid for day numbers >= -719468
YearOf(day) ==
  LET z   == day + 719468
      era == z \div 146097
      doe == z - era * 146097
      yoe == (doe - doe \div 1460 + doe \div 36524 - doe \div 146096) \div 365
      doy == doe - (365 * yoe + yoe \div 4 - yoe \div 100)
      mp  == (5 * doy + 2) \div 153
      m   == IF mp < 10 THEN mp + 3 ELSE mp - 9
  IN  yoe + era * 400 + (IF m <= 2 THEN 1 ELSE 0)
\* days-from-civil for January 1 of year y
FirstDayOfYear(y) ==
  LET yy  == y - 1                      \* January belongs to the previous "March-based" year
      era == yy \div 400
      yoe == yy - era * 400
      doy == 306                        \* day of year of Jan 1 counted from March 1
      doe == yoe * 365 + yoe \div 4 - yoe \div 100 + doy
  IN  era * 146097 + doe - 719468
LastDayOfYear(y) == FirstDayOfYear(y + 1) - 1
ASSUME FirstDayOfYear(1970) = 0 /\ FirstDayOfYear(2000) = 10957 /\ FirstDayOfYear(2017) = 17167 /\ LastDayOfYear(2016) = 17166
ASSUME \A y \in 1990..2040 : YearOf(FirstDayOfYear(y)) = y /\ YearOf(FirstDayOfYear(y) - 1) = y - 1
\* sanity anchors
ASSUME YearOf(0) = 1970 /\ YearOf(364) = 1970 /\ YearOf(365) = 1971
ASSUME YearOf(18262) = 2020 /\ YearOf(18261) = 2019 /\ YearOf(18627) = 2020 /\ YearOf(18628) = 2021
ASSUME YearOf(10957) = 2000 /\ YearOf(10956) = 1999 /\ YearOf(10957 + 365) = 2000 /\ YearOf(10957 + 366) = 2001
=============================================================================
