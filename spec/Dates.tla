------------------------------- MODULE Dates -------------------------------
(* Calendar arithmetic on day numbers (days since 1970-01-01, proleptic Gregorian).      *)
EXTENDS Integers
\* civil-from-days (days -> year), valid for day numbers >= -719468
YearOf(day) ==
  LET z   == day + 719468
      era == z \div 146097
      doe == z - era * 146097
      yoe == (doe - doe \div 1460 + doe \div 36524 - doe \div 146096) \div 365
      doy == doe - (365 * yoe + yoe \div 4 - yoe \div 100)
      mp  == (5 * doy + 2) \div 153
      m   == IF mp < 10 THEN mp + 3 ELSE mp - 9
  IN  yoe + era * 400 + (IF m <= 2 THEN 1 ELSE 0)
\* sanity anchors
ASSUME YearOf(0) = 1970 /\ YearOf(364) = 1970 /\ YearOf(365) = 1971
ASSUME YearOf(18262) = 2020 /\ YearOf(18261) = 2019 /\ YearOf(18627) = 2020 /\ YearOf(18628) = 2021
ASSUME YearOf(10957) = 2000 /\ YearOf(10956) = 1999 /\ YearOf(10957 + 365) = 2000 /\ YearOf(10957 + 366) = 2001
=============================================================================
