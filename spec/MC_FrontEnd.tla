----------------------------- MODULE MC_FrontEnd -----------------------------
(* Inputs of the front end, enumerated in two slices so that every class meets every other class  *)
(* of its own dimension and the base cases of the others:                                          *)
(*   slice "rows"   every sequence of 1..MaxRows row classes x every value class x both front    *)
(*                  ends, default options;                                                         *)
(*   slice "opts"   every opening class x every option set of OptSets x every header class, over  *)
(*                  a few fixed row sequences (acceptable, refused at parse, at convert, when the  *)
(*                  security is processed), two value classes.                                     *)
(*   slice "ledger" sequences of 3..LedgerRows acceptable rows of two affiliates.                   *)
(* Every input runs through the pipeline of module FrontEnd stage by stage: it always terminates,  *)
(* in a report or an attributed diagnostic; a malformed opening position ends the run before a row *)
(* is read; the row named is the first refused one of the stage that refuses.                      *)
EXTENDS FrontEnd, Json, SequencesExt
CONSTANTS MaxRows, RowAlphabet, ValClasses, OptSets, FixedRows, LedgerAlphabet, LedgerRows
OptSetsDef == {{}, {"summarize"}, {"summarize", "annual"}, {"summarize-early"}, {"summarize-late"}, {"summarize-bad"}, {"total-costs", "full-values"}, {"date-fmt-iso"}, {"date-fmt-us"},
               {"date-fmt-bad"}, {"date-fmt-empty"}, {"outdir", "verbose"}, {"annual"}}
FixedRowsDef == {<<"buy", "sell-loss", "buy-hi">>, <<"buy", "bad-number">>, <<"neg-shares", "bad-date">>, <<"buy", "oversell">>, <<"bad-date-fmt">>}
RECURSIVE SeqsOf(_, _)
SeqsOf(S, k) == IF k = 0 THEN {<<>>} ELSE { Append(s, x) : s \in SeqsOf(S, k - 1), x \in S }
RowSeqs == UNION { SeqsOf(RowAlphabet, k) : k \in 1..MaxRows }
Headers == HeaderOk \cup HeaderBad \cup HeaderAny
Input(fe, opening, opts, header, rows, vals) == [fe |-> fe, opening |-> opening, opts |-> opts, header |-> header, rows |-> rows, vals |-> vals]
WebOpts(fe, o) == IF fe = "web" THEN o \cap {"full-values"} ELSE o
\* slice "ledger": longer histories over a few acceptable row classes of two affiliates (losses followed by purchases, an
\* affiliate that sells everything, registered purchases)
LedgerSeqs == UNION { SeqsOf(LedgerAlphabet, k) : k \in 3..LedgerRows }
Init ==
  \/ \E fe \in {"acb", "web"}, rows \in RowSeqs, v \in ValClasses : FeInit(Input(fe, "none", {}, "ok", rows, v))
  \/ \E fe \in {"acb", "web"}, rows \in LedgerSeqs, o \in {{}, {"summarize"}, {"total-costs"}} : FeInit(Input(fe, "none", WebOpts(fe, o), "ok", rows, "plain"))
  \/ \E fe \in {"acb", "web"}, op \in OpeningOk \cup OpeningBad, o \in OptSets, h \in Headers, rows \in FixedRows, v \in {"plain", "deep"} :
        FeInit(Input(fe, op, WebOpts(fe, o), h, rows, v))
Next == FeNext
Spec == Init /\ [][Next]_fvars /\ WF_fvars(Next)
EmitCase == stage = "exit" => PrintT("@@CASE " \o ToJson([id |-> "fe", kind |-> "product", fe |-> inp.fe, opening |-> inp.opening, opts |-> SetToSeq(inp.opts),
                                                               header |-> inp.header, rows |-> inp.rows, vals |-> inp.vals]))
=============================================================================
