------------------------------ MODULE MC_AcbRun ------------------------------
(* Runs over two or three securities (one of which can fail by an over-sale), two years, every  *)
(* processing order.                                                                             *)
EXTENDS AcbRun
q1 == <<1, 0>>  q3 == <<3, 0>>
TemplatesV ==
  { TBuy("", q3, <<10, 0>>, Z), TBuy("Spouse", q1, <<10, 0>>, Z),
    TSell("", q1, <<12005, 3>>, Z), TSell("", q1, <<7, 0>>, <<5, 3>>), TSell("", q3, <<11, 0>>, Z) }
GapsV == {0, 20, 330}
OpeningsV == {<<>>}
SplitRatiosV == {<<2, 1>>}
SecsV == {"AAA", "BBB", "CCC"}
SecsV2 == {"AAA", "BBB"}
=============================================================================
