---------------------------- MODULE MCPortfolio ----------------------------
(***************************************************************************)
(* Several securities at once (properties C06, C08, C17): TLC composes     *)
(* every input of up to MaxRows rows over a row alphabet, a set of         *)
(* securities and a set of settlement-day gaps (including gaps that cross  *)
(* a year end), runs each security's ledger independently (Ledger), and    *)
(* builds the reports from them:                                           *)
(*   - gains per security and year, the aggregate over the securities that *)
(*     completed without error;                                            *)
(*   - the total-cost tables (Costs).                                      *)
(* By construction a security's ledger is a function of its own rows only; *)
(* what TLC checks here are the structural laws of the reports, and every  *)
(* composed input is emitted as a case that the harness runs through acb   *)
(* and Trace_Report / Trace_Ledger / Trace_Pair validate.                  *)
(***************************************************************************)
EXTENDS MCLedger, Costs

CONSTANTS Secs            \* set of security names
VARIABLES psec            \* psec[n] = security of hist[n]
pvars == <<vars, psec>>

RowsOfSec(s) ==
  LET ix == { n \in DOMAIN hist : psec[n] = s }
      sq == SetToSortSeq(ix, <)
  IN  [k \in DOMAIN sq |-> MkRow(hist[sq[k]], sq[k] - 1)]
LedgerOf(s) == LET Rs == Prepare(RowsOfSec(s), FALSE) IN [R |-> Rs, run |-> RunAll(Rs, InitState(AFS))]
UsedSecs == { psec[n] : n \in DOMAIN psec }
Completed(s) == LET L == LedgerOf(s) IN Len(L.run) = Len(L.R) /\ \A n \in DOMAIN L.run : L.run[n].ok

\* cost events of the default, non-registered affiliate
EventsOf(s) ==
  LET L == LedgerOf(s)
  IN  { [sec |-> s, sd |-> L.R[n].sd, n |-> n, post |-> L.run[n].S.acb["default"],
         pre |-> IF n = 1 THEN RZero ELSE L.run[n - 1].S.acb["default"]] :
        n \in { n \in DOMAIN L.run : L.run[n].ok /\ L.R[n].af = "default" } }
AllEvents == UNION { EventsOf(s) : s \in UsedSecs }

PInit == Init /\ psec = <<>>
PCompose ==
  /\ phase = "compose" /\ Len(hist) < MaxRows
  /\ \E t \in Templates, g \in Gaps, s \in Secs :
        /\ hist' = Append(hist, [t |-> t, sd |-> IF hist = <<>> THEN BaseDay ELSE hist[Len(hist)].sd + g])
        /\ psec' = Append(psec, s)
  /\ UNCHANGED <<open, phase, i, S, A, flagged, last>>
PFinish ==
  /\ phase = "compose" /\ hist # <<>>
  /\ phase' = "done" /\ UNCHANGED <<hist, open, i, S, A, flagged, last, psec>>
PNext == PCompose \/ PFinish
PSpec == PInit /\ [][PNext]_pvars

\* C08: acb sorts ALL rows by (settlement day, global read index) and then splits them by security;
\* the resulting processing order of a security is the order obtained from its own rows alone
GlobalRows == [n \in DOMAIN hist |-> [sec |-> psec[n], row |-> MkRow(hist[n], n - 1)]]
GlobalOrder == SortSeq(GlobalRows, LAMBDA a, b : RowLess(a.row, b.row))
SameRowButIdx(a, b) == [a EXCEPT !.idx = 0] = [b EXCEPT !.idx = 0]
InvIndependent ==
  phase = "done" =>
    \A s \in UsedSecs :
      LET fromAll == SelectSeq(GlobalOrder, LAMBDA x : x.sec = s)
          alone == Order([k \in DOMAIN RowsOfSec(s) |-> [RowsOfSec(s)[k] EXCEPT !.idx = k - 1]])
      IN  Len(fromAll) = Len(alone) /\ \A k \in DOMAIN alone : SameRowButIdx(fromAll[k].row, alone[k])

\* structural laws of the cost tables on every completed input whose securities all complete
InvCosts ==
  (phase = "done" /\ \A s \in UsedSecs : Completed(s)) =>
     LET E == AllEvents IN
     /\ \A d \in CostDays(E), s \in CostSecs(E) :
           \* the figure shown is a cost base the security really had at some point up to that day ...
           /\ \E e \in { e \in E : e.sec = s } : CostVal(E, s, d) \in {e.pre, e.post}
           \* ... and never less than its cost base at the end of that day
           /\ RLe(Closing(E, s, d), CostVal(E, s, d))
     /\ \A y \in CostYears(E) : MaxDays(E, y) # {}

PCaseOf ==
  [id |-> CaseTag, files |-> <<[n \in DOMAIN hist |-> [CaseRow(hist[n]) EXCEPT !.sec = psec[n]]]>>,
   opening |-> [x \in {} |-> 0], tags |-> [mc |-> CaseTag]]
PEmitCase == phase = "done" => PrintT("@@CASE " \o ToJson(PCaseOf))
PView == <<hist, psec, phase>>
=============================================================================
