SPECIFICATION Spec
INVARIANT SpecStateOK
INVARIANT SpecConserved
INVARIANT Summary
POSTCONDITION Accepted
CHECK_DEADLOCK FALSE
