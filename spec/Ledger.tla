------------------------------- MODULE Ledger -------------------------------
(***************************************************************************)
(* The per-security cost-base ledger of acb (properties C01-C04, C15,      *)
(* C16): average-cost bookkeeping per affiliate, the superficial-loss rule *)
(* with its 30-day window, the allocation of a denied loss to the buying   *)
(* affiliates, and the conditions under which a history is rejected.       *)
(*                                                                         *)
(* Everything here is a pure operator over                                 *)
(*   R   the security's rows in processing order: sorted by (settlement    *)
(*       day, read index), global splits already expanded per affiliate    *)
(*       (module Tx), WITHOUT the automatically generated SfLA rows;       *)
(*   i   the index of the row being processed;                             *)
(*   S   the ledger state [sh, acb : affiliate -> Rat, all : Rat].         *)
(* MC_Ledger.. turn them into a state machine explored exhaustively by TLC, *)
(* Trace_Ledger uses the very same operators to validate executions of the *)
(* real code.  The bookkeeping part (Core) follows the structure of        *)
(* delta_list.rs::delta_for_tx one action per row kind; the superficial-   *)
(* loss part (Acq, Held, ...) is written as set and sum comprehensions over *)
(* row indices and not as the code's two scans, so that it is an           *)
(* independent oracle.                                                     *)
(*                                                                         *)
(* Row = [act : {"Buy","Sell","Roc","Sfla","Split"}, af : affiliate id,   *)
(*        sd, td : day numbers, idx : read index,                          *)
(*        q : shares, p : amount per share, c : commission,                *)
(*        r : tx-currency rate to CAD, rc : commission-currency rate,      *)
(*        hasSfl : BOOLEAN, sflv : user-specified SFL (<= 0), force,       *)
(*        post, pre : split ratio, intOnly : BOOLEAN]                      *)
(* REG  = function affiliate id -> BOOLEAN (registered affiliates carry    *)
(*        shares only).                                                    *)
(***************************************************************************)
EXTENDS Rat, Integers, Sequences, FiniteSets, TLC

Window == 30                                \* calendar days either side of the sale's settlement date
MaxSflDiff == RDec(1, 3)                    \* 0.001: tolerated gap between specified and computed SFL

InitState(AFS) == [sh |-> [a \in AFS |-> RZero], acb |-> [a \in AFS |-> RZero], all |-> RZero]
\* opening position n shares / cost c for affiliate d (the default affiliate)
OpenState(AFS, d, n, c) ==
  [sh |-> [a \in AFS |-> IF a = d THEN n ELSE RZero],
   acb |-> [a \in AFS |-> IF a = d THEN c ELSE RZero], all |-> n]

\* sum over lo..hi of term(k)
SumRange(lo, hi, term(_)) ==
  IF lo > hi THEN RZero ELSE RSumSeq([k \in 1..(hi - lo + 1) |-> term(lo + k - 1)])
RSumOver(T, term(_)) ==
  LET RECURSIVE go(_)
      go(U) == IF U = {} THEN RZero ELSE LET x == CHOOSE x \in U : TRUE IN RAdd(term(x), go(U \ {x}))
  IN go(T)

(***************************************************************************)
(* Split periods.  SplitFactor(R,a,lo,hi) is the product of post/pre over  *)
(* the Split rows of affiliate a at indices lo..hi.                        *)
(***************************************************************************)
RECURSIVE SplitFactor(_, _, _, _)
SplitFactor(R, a, lo, hi) ==
  IF lo > hi THEN ROne
  ELSE LET rest == SplitFactor(R, a, lo + 1, hi)
       IN  IF R[lo].act = "Split" /\ R[lo].af = a
           THEN RMul(RDiv(R[lo].post, R[lo].pre), rest) ELSE rest

\* shares of row j expressed in the split period of the sale at i
AdjShares(R, i, j) ==
  IF j > i THEN RDiv(R[j].q, SplitFactor(R, R[j].af, i + 1, j - 1))
  ELSE RMul(R[j].q, SplitFactor(R, R[j].af, j + 1, i - 1))

(***************************************************************************)
(* The superficial-loss window of the sale at index i.                     *)
(***************************************************************************)
Before(R, i) == { j \in 1..(i - 1) : R[j].sd >= R[i].sd - Window }
After(R, i)  == { j \in (i + 1)..Len(R) : R[j].sd <= R[i].sd + Window }
Win(R, i)    == Before(R, i) \cup After(R, i)
IsBuy(R, j)  == R[j].act = "Buy"
IsSell(R, j) == R[j].act = "Sell"

\* shares acquired in the window by anybody (registered or not), in sale-period units
Acq(R, i) == RSumOver({ j \in Win(R, i) : IsBuy(R, j) }, LAMBDA j : AdjShares(R, i, j))

\* running share count of affiliate a after row j >= i, in sale-period units;
\* P is the state after the sale at i
RunAff(R, i, P, a, j) ==
  RAdd(P.sh[a],
       RSumOver({ k \in (i + 1)..j : R[k].af = a /\ (IsBuy(R, k) \/ IsSell(R, k)) },
              LAMBDA k : IF IsBuy(R, k) THEN AdjShares(R, i, k) ELSE RNeg(AdjShares(R, i, k))))
LastAfter(R, i) == IF After(R, i) = {} THEN i ELSE CHOOSE j \in After(R, i) : \A k \in After(R, i) : k <= j
\* holdings of a at the end of the window
Eop(R, i, P, a) == RunAff(R, i, P, a, LastAfter(R, i))
Held(R, i, P)   == RSumOver(DOMAIN P.sh, LAMBDA a : Eop(R, i, P, a))

\* A later sale inside the window that sells more than its affiliate holds makes the history
\* impossible; the code notices while looking ahead from the loss sale.
ForwardBad(R, i, P) ==
  \E j \in After(R, i) : IsSell(R, j) /\ RNegative(RunAff(R, i, P, R[j].af, j))

Superficial(R, i, P) == RPos(Acq(R, i)) /\ RPos(Held(R, i, P))
SflShares(R, i, P)   == RMin(R[i].q, RMin(Acq(R, i), Held(R, i, P)))
SflRatio(R, i, P)    == RDiv(SflShares(R, i, P), R[i].q)

Buyers(R, i)      == { R[j].af : j \in { j \in Win(R, i) : IsBuy(R, j) } }
BuyTot(R, i, P)   == RSumOver(Buyers(R, i), LAMBDA a : Eop(R, i, P, a))
OverApplied(R, i, P) == RLt(BuyTot(R, i, P), SflShares(R, i, P))
\* the denied loss |sfl| is added to the cost base of the non-registered buying affiliates in
\* proportion to their end-of-window holdings (relative to all buying affiliates)
Adjust(R, i, P, REG, sfl) ==
  IF ~RPos(BuyTot(R, i, P)) THEN {}
  ELSE { [af |-> a, amt |-> RMul(RAbs(sfl), RDiv(Eop(R, i, P, a), BuyTot(R, i, P)))] :
           a \in { a \in Buyers(R, i) : ~REG[a] /\ RPos(Eop(R, i, P, a)) } }

(***************************************************************************)
(* Core bookkeeping: one operator per row kind, each returning             *)
(*   [ok, why, S', hasGain, raw]                                           *)
(* raw is the capital gain before any superficial-loss denial.             *)
(***************************************************************************)
Res(ok, why, S, hasGain, raw) == [ok |-> ok, why |-> why, S |-> S, hasGain |-> hasGain, raw |-> raw]
Bad(S, why) == Res(FALSE, why, S, FALSE, RZero)

CoreBuy(S, REG, t) ==
  LET a == t.af
      cost == RAdd(RMul(RMul(t.q, t.p), t.r), RMul(t.c, t.rc))
  IN  Res(TRUE, "", [sh |-> [S.sh EXCEPT ![a] = RAdd(@, t.q)],
                     acb |-> [S.acb EXCEPT ![a] = IF REG[a] THEN RZero ELSE RAdd(@, cost)],
                     all |-> RAdd(S.all, t.q)], FALSE, RZero)

CoreSell(S, REG, t) ==
  LET a == t.af
      sh == S.sh[a]
  IN  IF RLt(sh, t.q) THEN Bad(S, "oversell")
      ELSE LET left == RSub(sh, t.q)
               \* cost removed in proportion to the shares sold
               costOut == IF RIsZero(sh) THEN RZero ELSE RDiv(RMul(S.acb[a], t.q), sh)
               raw == RSub(RSub(RMul(RMul(t.q, t.p), t.r), RMul(t.c, t.rc)), costOut)
           IN  Res(TRUE, "", [sh |-> [S.sh EXCEPT ![a] = left],
                              acb |-> [S.acb EXCEPT ![a] = IF REG[a] THEN RZero ELSE RSub(@, costOut)],
                              all |-> RSub(S.all, t.q)], ~REG[a], IF REG[a] THEN RZero ELSE raw)

CoreRoc(S, REG, t) ==
  LET a == t.af
      red == RMul(RMul(t.p, S.sh[a]), t.r)
  IN  IF REG[a] THEN Bad(S, "roc-registered")
      ELSE IF RLt(S.acb[a], red) THEN Bad(S, "roc-exceeds-acb")
      ELSE Res(TRUE, "", [S EXCEPT !.acb[a] = RSub(@, red)], FALSE, RZero)

CoreSfla(S, REG, t) ==
  LET a == t.af
  IN  IF REG[a] THEN Bad(S, "sfla-registered")
      ELSE Res(TRUE, "", [S EXCEPT !.acb[a] = RAdd(@, RMul(t.q, t.p))], FALSE, RZero)

CoreSplit(S, REG, t) ==
  LET a == t.af
      nsh == RDiv(RMul(S.sh[a], t.post), t.pre)
  IN  IF RLt(t.post, t.pre) /\ t.intOnly /\ ~RIsInt(nsh) THEN Bad(S, "split-fraction")
      ELSE Res(TRUE, "", [S EXCEPT !.sh[a] = nsh, !.all = RAdd(@, RSub(nsh, S.sh[a]))], FALSE, RZero)

Core(S, REG, t) ==
  CASE t.act = "Buy"   -> CoreBuy(S, REG, t)
    [] t.act = "Sell"  -> CoreSell(S, REG, t)
    [] t.act = "Roc"   -> CoreRoc(S, REG, t)
    [] t.act = "Sfla"  -> CoreSfla(S, REG, t)
    [] t.act = "Split" -> CoreSplit(S, REG, t)

(***************************************************************************)
(* Full step for the row at index i: Core plus the superficial-loss rule.  *)
(* Result: [ok, why, S, hasGain, raw, gain, sfl (<= 0), superficial,       *)
(*          ratio, adj (set of [af, amt]), over, manual]; S is the state   *)
(* right after the row itself, before its automatic adjustments.           *)
(***************************************************************************)
Full(c, gain, sfl, sup, ratio, adj, over, manual) ==
  [ok |-> c.ok, why |-> c.why, S |-> c.S, hasGain |-> c.hasGain, raw |-> c.raw, gain |-> gain,
   sfl |-> sfl, superficial |-> sup, ratio |-> ratio, adj |-> adj, over |-> over, manual |-> manual]
Plain(c) == Full(c, c.raw, RZero, FALSE, RZero, {}, FALSE, FALSE)
Rejected(S, why) == Plain(Bad(S, why))

\* computed (automatic) superficial loss of the sale at i, given its raw loss and post-sale state P
ComputedSfl(R, i, P, raw) == IF Superficial(R, i, P) THEN RMul(raw, SflRatio(R, i, P)) ELSE RZero

Step(S, REG, R, i) ==
  LET t == R[i]
      c == Core(S, REG, t)
  IN  IF ~c.ok \/ t.act # "Sell" \/ ~c.hasGain THEN Plain(c)
      ELSE IF ~RNegative(c.raw)
           THEN (IF t.hasSfl THEN Rejected(S, "sfl-without-loss") ELSE Plain(c))
      ELSE \* a loss by a non-registered affiliate
           LET P == c.S
           IN  IF ForwardBad(R, i, P) THEN Rejected(S, "oversell-in-window")
               ELSE LET comp == ComputedSfl(R, i, P, c.raw)
                    IN  IF t.hasSfl
                        THEN IF ~t.force /\ RLt(MaxSflDiff, RAbs(RSub(comp, t.sflv)))
                             THEN Rejected(S, "sfl-mismatch")
                             ELSE IF RIsZero(t.sflv) THEN Plain(c)
                             ELSE \* the user's figure replaces the computed one; no automatic adjustment
                                  Full(c, RSub(c.raw, t.sflv), t.sflv, TRUE,
                                       RDiv(t.sflv, c.raw), {}, FALSE, TRUE)
                        ELSE IF ~Superficial(R, i, P) THEN Plain(c)
                        ELSE Full(c, RSub(c.raw, comp), comp, TRUE, SflRatio(R, i, P),
                                  Adjust(R, i, P, REG, comp), OverApplied(R, i, P), FALSE)

\* The automatic adjustments of a sale are separate SfLA rows placed right after it (in any order
\* among themselves); ApplyAdj applies a set of them.
ApplyAdj(S, adj) ==
  [S EXCEPT !.acb = [a \in DOMAIN S.acb |->
      LET m == { x \in adj : x.af = a }
      IN IF m = {} THEN S.acb[a] ELSE RAdd(S.acb[a], (CHOOSE x \in m : TRUE).amt)]]
\* state after row i and its automatic adjustments
StepAll(S, REG, R, i) == LET s == Step(S, REG, R, i) IN [s EXCEPT !.S = ApplyAdj(s.S, s.adj)]

(***************************************************************************)
(* State invariants (C04) and the conservation identity (C03).             *)
(***************************************************************************)
StateOK(S, REG) ==
  /\ \A a \in DOMAIN S.sh : ~RNegative(S.sh[a]) /\ ~RNegative(S.acb[a])
  /\ \A a \in DOMAIN S.sh : REG[a] => RIsZero(S.acb[a])
  /\ S.all = RSumOver(DOMAIN S.sh, LAMBDA a : S.sh[a])

\* cash-flow accumulators A = [proceeds, costs, roc, gains]
ZeroAcc == [proceeds |-> RZero, costs |-> RZero, roc |-> RZero, gains |-> RZero]
AccStep(A, S, t, gain) ==
  CASE t.act = "Buy"  -> [A EXCEPT !.costs = RAdd(@, RAdd(RMul(RMul(t.q, t.p), t.r), RMul(t.c, t.rc)))]
    [] t.act = "Sell" -> [A EXCEPT !.proceeds = RAdd(@, RSub(RMul(RMul(t.q, t.p), t.r), RMul(t.c, t.rc))),
                                   !.gains = RAdd(@, gain)]
    [] t.act = "Roc"  -> [A EXCEPT !.roc = RAdd(@, RMul(RMul(t.p, S.sh[t.af]), t.r))]
    [] OTHER -> A
TotalAcb(S) == RSumOver(DOMAIN S.acb, LAMBDA a : S.acb[a])
\* gains so far = net proceeds - purchase costs + returns of capital + cost base still held
\* (a return of capital is money received: it lowers the cost base without being a gain yet)
Conserved(A, S) == A.gains = RAdd(RAdd(RSub(A.proceeds, A.costs), A.roc), TotalAcb(S))
ConservedEps(A, S, eps) == RClose(A.gains, RAdd(RAdd(RSub(A.proceeds, A.costs), A.roc), TotalAcb(S)), eps)
=============================================================================
