-------------------------- MODULE MC_Ledger_manual --------------------------
(* Alphabet for user-declared superficial losses (C02): loss sales carrying no figure, the   *)
(* figure the rules compute for a fully / partly superficial sale, figures off by less and   *)
(* by more than the 0.001 allowance, zero, and forced values.                                 *)
EXTENDS MCLedger
q1 == <<1, 0>>  q2 == <<2, 0>>  q3 == <<3, 0>>
TemplatesV ==
  { TBuy("", q, <<10, 0>>, Z) : q \in {q1, q2, q3} } \cup { TBuy("Spouse", q1, <<10, 0>>, Z) } \cup
  { TSell("", q1, <<8, 0>>, Z), TSell("", q2, <<8, 0>>, Z), TSell("", q1, <<12, 0>>, Z) } \cup
  { TSellSfl("", q1, <<8, 0>>, "-2", <<-2, 0>>, FALSE),
    TSellSfl("", q1, <<8, 0>>, "-2.0005", <<-20005, 4>>, FALSE),
    TSellSfl("", q1, <<8, 0>>, "-2.002", <<-2002, 3>>, FALSE),
    TSellSfl("", q2, <<8, 0>>, "-2", <<-2, 0>>, FALSE),
    TSellSfl("", q1, <<8, 0>>, "0", Z, FALSE),
    TSellSfl("", q1, <<8, 0>>, "0!", Z, TRUE),
    TSellSfl("", q1, <<8, 0>>, "-1!", <<-1, 0>>, TRUE),
    TSellSfl("", q1, <<12, 0>>, "0", Z, FALSE),
    TSfla("", q1, <<2, 0>>) }
GapsV == {0, 30, 31}
SplitRatiosV == {<<2, 1>>, <<1, 2>>, <<3, 2>>, <<1, 3>>}
OpeningsV == {<<>>}
=============================================================================
