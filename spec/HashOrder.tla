------------------------------ MODULE HashOrder ------------------------------
(***************************************************************************)
(* Property C09 at the design level: every place where acb walks a hash    *)
(* container (Rust HashMap/HashSet: the order is a per-process random      *)
(* permutation) and the order can reach the output.  Each site is modelled *)
(* with an explicit nondeterministic choice of the iteration order; the    *)
(* output of the site must be the same for every choice.                   *)
(*                                                                         *)
(*   Site "split"   per-affiliate rows generated for a split naming no     *)
(*                  affiliate (splits.rs): output = sequence of affiliates *)
(*   Site "yearmax" day shown for the yearly maximum cost (costs.rs):      *)
(*                  fold over the days keeping the best so far             *)
(*   Site "notes"   'ignored transaction' notes of the cost tables, built  *)
(*                  security by security (approot.rs)                      *)
(*   Site "aggsum"  aggregate gains summed security by security: the       *)
(*                  printed scale of a Decimal sum depends on the order    *)
(*                  (cumulative_gains.rs); modelled as the scale sequence  *)
(* Sorted = TRUE is the repaired design (walk in sorted order / break ties *)
(* by date); Sorted = FALSE is the design as found, for which TLC produces *)
(* a counterexample at every site (negative control).                      *)
(***************************************************************************)
EXTENDS Integers, Sequences, FiniteSets, SequencesExt, TLC

CONSTANTS Keys,          \* the keys of the container (affiliates / securities / days), as naturals
          Totals,        \* possible cost totals per day
          Sorted
VARIABLES order,         \* the iteration order chosen by this process
          total,         \* cost total per day (site yearmax)
          notes,         \* per-key note lists (site notes): number of notes per key
          scales         \* per-key scale of the gain figure (site aggsum)
hvars == <<order, total, notes, scales>>

Perms == { p \in [1..Cardinality(Keys) -> Keys] : \A a, b \in DOMAIN p : a # b => p[a] # p[b] }
SortedOrder == SortSeq(SetToSeq(Keys), <)
Walk == IF Sorted THEN SortedOrder ELSE order

HInit == /\ order \in Perms /\ total \in [Keys -> Totals] /\ notes \in [Keys -> 0..1] /\ scales \in [Keys -> 0..2]
HNext == UNCHANGED hvars
HSpec == HInit /\ [][HNext]_hvars

SplitOut(w) == w
RECURSIVE Best(_, _, _)
Best(w, k, best) ==      \* fold: keep the best day so far
  IF k > Len(w) THEN best
  ELSE LET d == w[k]
       IN  Best(w, k + 1, IF best = -1 THEN d
                          ELSE IF total[best] < total[d] THEN d
                          ELSE IF Sorted /\ total[best] = total[d] /\ d < best THEN d
                          ELSE best)
\* (the day map is walked in hash order in both designs; the repaired one breaks ties by date)
YearMaxOut(w) == Best(w, 1, -1)
RECURSIVE NotesOut(_, _)
NotesOut(w, k) == IF k > Len(w) THEN <<>> ELSE (IF notes[w[k]] = 1 THEN <<w[k]>> ELSE <<>>) \o NotesOut(w, k + 1)
\* scale of a running Decimal sum: adding x to a zero sum keeps the larger scale seen so far only
\* if a non-zero... modelled faithfully enough by "scale of the first operand wins on zero sums"
AggOut(w) == IF Len(w) = 0 THEN 0 ELSE scales[w[1]]

Out(w, dayWalk) == <<SplitOut(w), YearMaxOut(dayWalk), NotesOut(w, 1), AggOut(w)>>
\* every iteration order gives the same output
Deterministic == \A p \in Perms : Out(IF Sorted THEN SortedOrder ELSE p, p) = Out(Walk, order)
=============================================================================
