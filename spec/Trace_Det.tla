------------------------------ MODULE Trace_Det ------------------------------
(***************************************************************************)
(* Property C09 on the real program: one trace line per (input, mode): the *)
(* digests of standard output and of every output file of the acb binary   *)
(* run under each hash seed (interpose/hashseed.so makes the seeds of      *)
(* Rust's hash containers a function of the seed number).  HashOrder's     *)
(* Deterministic, observed: all digests are equal.                         *)
(***************************************************************************)
EXTENDS Integers, Sequences, FiniteSets, Json, IOUtils, TLC
Recs == ndJsonDeserialize(IOEnv.TRACE)
VARIABLES l, tally
vars == <<l, tally>>
FailV(cls, detail) == [v |-> "fail", cls |-> cls, detail |-> detail]
OkV == [v |-> "ok", cls |-> "", detail |-> ""]
Judge(r) ==
  IF \A n \in DOMAIN r.digests : r.digests[n] = r.digests[1] THEN OkV
  ELSE FailV("nondet", "mode " \o r.mode \o ": hash seeds " \o ToString(r.diff.seedA) \o " and " \o ToString(r.diff.seedB)
                          \o " give different " \o r.diff.where \o ": ..." \o r.diff.a \o "... vs ..." \o r.diff.b \o "...")
Init == l = 1 /\ tally = [ok |-> 0, fail |-> 0, ambig |-> 0, skip |-> 0, steps |-> 0]
Next ==
  /\ l <= Len(Recs)
  /\ LET r == Judge(Recs[l]) IN
     /\ tally' = [tally EXCEPT ![r.v] = @ + 1, !.steps = @ + Len(Recs[l].digests)]
     /\ (r.v = "fail" => PrintT("@@FAIL " \o ToJson([id |-> Recs[l].id, sec |-> Recs[l].mode, line |-> l, cls |-> r.cls, detail |-> r.detail])))
  /\ l' = l + 1
Spec == Init /\ [][Next]_vars
Done == l = Len(Recs) + 1
Summary == Done => PrintT("@@SUMMARY " \o ToJson(tally))
Accepted == TLCGet("stats").diameter >= Len(Recs) + 1
=============================================================================
