------------------------------ MODULE PageIter ------------------------------
(***************************************************************************)
(* OptimizedPageIter over a LazyPageTextVec as a state machine (the        *)
(* operators on page groups and the vector are in module Pages): when      *)
(* nothing is left to yield, LOAD the next group (every page of it is      *)
(* extracted and stored), then YIELD its pages one by one.                 *)
(***************************************************************************)
EXTENDS Pages
VARIABLES n,          \* pages in the document
          groups,     \* page groups handed to the iterator
          next,       \* next group to load
          unyielded,  \* pages of the loaded group not yet yielded
          vec,        \* the vector of loaded texts
          requested,  \* every page whose extraction was requested, in order
          yielded,    \* <<page, text>> in the order yielded
          status      \* "run" | "end" | "panic"
ivars == <<n, groups, next, unyielded, vec, requested, yielded, status>>

IterInit(np, gs) ==
  /\ n = np /\ groups = gs /\ next = 1 /\ unyielded = <<>> /\ vec = <<>>
  /\ requested = <<>> /\ yielded = <<>> /\ status = "run"
Load ==
  /\ status = "run" /\ unyielded = <<>> /\ next <= Len(groups)
  /\ vec' = StoreAll(vec, n, groups[next])
  /\ requested' = requested \o groups[next]
  /\ unyielded' = groups[next] /\ next' = next + 1
  \* an empty group leaves nothing to pop: the iterator panics
  /\ status' = IF groups[next] = <<>> THEN "panic" ELSE "run"
  /\ UNCHANGED <<n, groups, yielded>>
Yield ==
  /\ status = "run" /\ unyielded # <<>>
  /\ LET p == Head(unyielded) IN
       IF p > Len(vec) \/ vec[p] = 0
       THEN status' = "panic" /\ UNCHANGED yielded       \* index out of range / unwrap of None
       ELSE status' = "run" /\ yielded' = Append(yielded, <<p, vec[p]>>)
  /\ unyielded' = Tail(unyielded)
  /\ UNCHANGED <<n, groups, next, vec, requested>>
End ==
  /\ status = "run" /\ unyielded = <<>> /\ next > Len(groups)
  /\ status' = "end" /\ UNCHANGED <<n, groups, next, unyielded, vec, requested, yielded>>
IterNext == Load \/ Yield \/ End

\* the properties of the iteration
InRange == \A i \in DOMAIN requested : requested[i] >= 1 /\ requested[i] <= n
NoPanic == status # "panic"
RightText == \A i \in DOMAIN yielded : yielded[i][2] = yielded[i][1]
Covers == status = "end" => { yielded[i][1] : i \in DOMAIN yielded } = 1..n
InOrder == status = "end" => [i \in DOMAIN yielded |-> yielded[i][1]] = Flatten(groups)
FnAgrees == status \in {"end", "panic"} => yielded = IterFn(n, groups).y /\ (status = "panic") = IterFn(n, groups).panic
=============================================================================
