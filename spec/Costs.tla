------------------------------- MODULE Costs -------------------------------
(***************************************************************************)
(* The --total-costs report (property C17), stated declaratively.          *)
(*                                                                         *)
(* E is the set of cost events: one per reported transaction of the        *)
(* default, non-registered affiliate, [sec, sd, n (position in the         *)
(* security's ledger), pre, post (cost base before / after)].              *)
(* For each day on which some event settles and each security that has     *)
(* events at all, the table shows the highest cost base the security had   *)
(* after any event settling that day or, if none settled that day, its     *)
(* cost base after its most recent earlier event (its opening cost base    *)
(* before its first); the row total is the sum.  The yearly table shows,   *)
(* per year with an event, a day of that year whose total is highest.      *)
(***************************************************************************)
EXTENDS Rat, Dates, Integers, FiniteSets

CostDays(E)  == { e.sd : e \in E }
CostSecs(E)  == { e.sec : e \in E }
On(E, s, d)  == { e \in E : e.sec = s /\ e.sd = d }
Upto(E, s, d) == { e \in E : e.sec = s /\ e.sd <= d }
RMaxOf(T, f(_)) == LET x == CHOOSE x \in T : \A y \in T : RLe(f(y), f(x)) IN f(x)
DayMax(E, s, d) == RMaxOf(On(E, s, d), LAMBDA e : e.post)
First(E, s) == CHOOSE e \in { e \in E : e.sec = s } : \A y \in { y \in E : y.sec = s } : e.n <= y.n
Closing(E, s, d) ==
  IF Upto(E, s, d) = {} THEN First(E, s).pre
  ELSE (CHOOSE e \in Upto(E, s, d) : \A y \in Upto(E, s, d) : y.n <= e.n).post
CostVal(E, s, d) == IF On(E, s, d) # {} THEN DayMax(E, s, d) ELSE Closing(E, s, d)
RECURSIVE SumOverSecs(_, _, _)
SumOverSecs(E, T, d) == IF T = {} THEN RZero ELSE LET s == CHOOSE s \in T : TRUE IN RAdd(CostVal(E, s, d), SumOverSecs(E, T \ {s}, d))
CostTotal(E, d) == SumOverSecs(E, CostSecs(E), d)
CostYears(E) == { YearOf(d) : d \in CostDays(E) }
DaysOfYear(E, y) == { d \in CostDays(E) : YearOf(d) = y }
\* the days a correct yearly table may show for year y (ties: any of them)
MaxDays(E, y) == { d \in DaysOfYear(E, y) : \A x \in DaysOfYear(E, y) : RLe(CostTotal(E, x), CostTotal(E, d)) }
=============================================================================
