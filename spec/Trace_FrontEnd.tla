--------------------------- MODULE Trace_FrontEnd ---------------------------
(***************************************************************************)
(* Property C05 on the real front ends: one trace line per run - the       *)
(* abstract input (kind "product": composed by TLC; "random": seeded       *)
(* longer products of acceptable rows; "bytes": a valid input with         *)
(* byte- or cell-level damage), the front end it was offered to, and how   *)
(* the run ended.                                                          *)
(*   class "panic"        the run panicked                                 *)
(*   class "loop"         the run did not terminate in time                *)
(*   class "abort"        the run was ended by a signal                    *)
(*   class "outcome"      a report where module FrontEnd demands a         *)
(*                        diagnostic or the other way round; a problem     *)
(*                        of a security not flagged / flagged without one  *)
(*   class "attribution"  a diagnostic that does not name what FrontEnd    *)
(*                        says it must (option, file, row - and which      *)
(*                        row -, security)                                 *)
(*   class "silent"       failure without a message / success without      *)
(*                        output                                           *)
(***************************************************************************)
EXTENDS FrontEndRules, Json, IOUtils
Recs == ndJsonDeserialize(IOEnv.TRACE)
VARIABLES l, tally
vars == <<l, tally>>
FailV(cls, detail) == [v |-> "fail", cls |-> cls, detail |-> detail]
OkV == [v |-> "ok", cls |-> "", detail |-> ""]
Chk(cond, cls, detail, rest) == IF cond THEN rest ELSE FailV(cls, detail)
Range(s) == { s[k] : k \in DOMAIN s }
InputOf(rec) == [fe |-> rec.fe, opening |-> rec.opening, opts |-> Range(rec.opts), header |-> rec.header, rows |-> rec.rows, vals |-> rec.vals]
Seen(o) == (IF o.attr.file THEN {"file"} ELSE {}) \cup (IF o.attr.row THEN {"row"} ELSE {}) \cup (IF o.attr.security THEN {"security"} ELSE {})
           \cup (IF o.attr.option THEN {"option"} ELSE {}) \cup (IF o.says THEN {"message"} ELSE {})
Tag(rec) == "[" \o rec.fe \o " " \o rec.kind \o " vals=" \o rec.vals \o "] "
Judge(rec) ==
  LET o == rec.obs  t == Tag(rec) IN
  Chk(o.end # "panic", "panic", t \o "the run panicked: " \o o.message,
  Chk(o.end # "timeout", "loop", t \o "the run did not terminate within its time limit",
  Chk(o.end # "signal", "abort", t \o "the run was ended by a signal (exit status " \o ToString(o.exit) \o ")",
  Chk(o.end = "error" => o.says, "silent", t \o "the run failed without a message",
  IF rec.kind = "bytes" THEN OkV
  ELSE LET e == Expected(InputOf(rec)) IN
  CASE e.kind = "diag" ->
         Chk(o.end = "error", "outcome", t \o "a report was produced where a diagnostic is due",
         Chk(~o.report, "outcome", t \o "a report was printed although the input must be refused before processing",
         Chk(e.attr \subseteq Seen(o), "attribution", t \o "the diagnostic does not attribute the problem as it must: " \o o.message,
         Chk("row" \in e.attr => o.attr.rownum = e.row, "attribution", t \o "the diagnostic names row " \o ToString(o.attr.rownum) \o ", the refused row is " \o ToString(e.row),
         OkV))))
    [] e.kind = "report" ->
         Chk(o.end = "ok", "outcome", t \o "an acceptable input was refused: " \o o.message,
         Chk(o.report, "silent", t \o "the run succeeded without producing a report",
         Chk(e.flagged = "yes" => (o.flagged /\ o.attr.security), "outcome", t \o "the refused history of a security is not flagged in the report",
         Chk(e.flagged = "no" => ~o.flagged, "outcome", t \o "the report flags a problem for an acceptable history: " \o o.message,
         OkV))))
    [] OTHER -> OkV))))
Init == l = 1 /\ tally = [ok |-> 0, fail |-> 0, ambig |-> 0, skip |-> 0, steps |-> 0]
Next ==
  /\ l <= Len(Recs)
  /\ LET r == Judge(Recs[l]) IN
     /\ tally' = [tally EXCEPT ![r.v] = @ + 1, !.steps = @ + Len(Recs[l].rows) + 1]
     /\ (r.v = "fail" => PrintT("@@FAIL " \o ToJson([id |-> Recs[l].id, sec |-> "*", line |-> l, cls |-> r.cls, detail |-> r.detail])))
  /\ l' = l + 1
Spec == Init /\ [][Next]_vars
Done == l = Len(Recs) + 1
Summary == Done => PrintT("@@SUMMARY " \o ToJson(tally))
Accepted == TLCGet("stats").diameter >= Len(Recs) + 1
=============================================================================
