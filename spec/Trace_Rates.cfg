SPECIFICATION Spec
INVARIANT SpecTransparent
INVARIANT SpecAtMostOnce
INVARIANT SpecNoNeedless
INVARIANT Summary
POSTCONDITION Accepted
CHECK_DEADLOCK FALSE
