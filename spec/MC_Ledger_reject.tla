-------------------------- MODULE MC_Ledger_reject --------------------------
(* Alphabet rich in borderline rows (C04): selling exactly / just over the balance, a return *)
(* of capital exactly / just over the cost base, whole-number reverse splits on odd and even *)
(* balances and on balances divisible by 3, returns of capital and adjustments on a          *)
(* registered account, declared superficial losses on a gain, matching, off by more than     *)
(* 0.001, and forced.                                                                         *)
EXTENDS MCLedger
q1 == <<1, 0>>  q2 == <<2, 0>>  q3 == <<3, 0>>  q9 == <<9, 0>>
TemplatesV ==
  { TBuy("", q, <<10, 0>>, Z) : q \in {q2, q3, q9} } \cup
  { TBuy("Spouse", q2, <<10, 0>>, Z), TBuy("(R)", q3, <<10, 0>>, Z) } \cup
  { TSell("", q, <<8, 0>>, Z) : q \in {q1, q2, q3} } \cup
  { TSell("Spouse", q3, <<12, 0>>, Z), TSell("(R)", q3, <<8, 0>>, Z), TSell("", <<20001, 4>>, <<8, 0>>, Z) } \cup
  { TRoc("", <<10, 0>>), TRoc("", <<100001, 4>>), TRoc("(R)", <<1, 0>>), TSfla("(R)", q1, <<1, 0>>), TSfla("", q1, <<5, 0>>) } \cup
  { TSplit("*", "1-for-2", One, <<2, 0>>, TRUE), TSplit("*", "1-for-3", One, <<3, 0>>, TRUE),
    TSplit("", "1.0-for-2.0", One, <<2, 0>>, FALSE), TSplit("*", "3-for-1", <<3, 0>>, One, FALSE) } \cup
  { TSellSfl("", q1, <<12, 0>>, "-1", <<-1, 0>>, FALSE),      \* declared on a gain
    TSellSfl("", q1, <<8, 0>>, "-2", <<-2, 0>>, FALSE),       \* may match the computed one
    TSellSfl("", q1, <<8, 0>>, "-2.002", <<-2002, 3>>, FALSE),
    TSellSfl("", q1, <<8, 0>>, "-0.5!", <<-5, 1>>, TRUE),
    TSellSfl("", q1, <<8, 0>>, "0", Z, FALSE) }
GapsV == {0, 10, 40}
SplitRatiosV == {<<2, 1>>, <<1, 2>>, <<3, 2>>, <<1, 3>>}
OpeningsV == {<<>>}
=============================================================================
