------------------------------ MODULE MC_Summary ------------------------------
(* Does acb's summary ALGORITHM round-trip?  For every error-free history over the alphabet   *)
(* (two affiliates, purchases, sales at a gain and at a loss, gaps around the 30-day window    *)
(* and a long gap), every summary date (each settlement date of the history) and both modes,  *)
(* TLC compares the ledger of the full history with the ledger of (summary rows + later rows). *)
EXTENDS MCLedger, Dates
Rank(a) == CASE a = "default" -> 1 [] a = "default (R)" -> 2 [] a = "kid" -> 3 [] a = "spouse" -> 4 [] a = "spouse (R)" -> 5 [] OTHER -> 9
CONSTANTS LossSales, Shareless
Sm == INSTANCE Summary WITH IdLess <- LAMBDA a, b : Rank(a) < Rank(b), LossSalesToo <- LossSales, CarryShareless <- Shareless
q1 == <<1, 0>>  q2 == <<2, 0>>  q3 == <<3, 0>>
TemplatesV ==
  { TBuy("", q3, <<10, 0>>, Z), TBuy("", q1, <<10, 0>>, Z), TBuy("Spouse", q2, <<10, 0>>, Z),
    TSell("", q1, <<7, 0>>, Z), TSell("", q1, <<12, 0>>, Z), TSell("Spouse", q1, <<7, 0>>, Z),
    \* a loss of 3 of which the user declares 1 superficial, forced (the rule would deny all or nothing)
    TSellSfl("", q1, <<7, 0>>, "-1!", <<-1, 0>>, TRUE) }
GapsV == {0, 20, 31, 400}
OpeningsV == {<<>>}
SplitRatiosV == {<<2, 1>>}
BaseDayJan == 18264     \* 2020-01-03: histories that start in the first days of a year (annual mode)
GapsJanV == {0, 3, 20, 31}
CutDays == { hist[n].sd : n \in DOMAIN hist }
Complete == phase = "done" /\ i > Len(R)          \* processed to the end: an error-free history
InvRoundTripSimple == Complete => \A cut \in CutDays : Sm!RoundTrip(R, REG, StartState, AFS, cut, FALSE)
InvRoundTripAnnual == Complete => \A cut \in CutDays : Sm!RoundTrip(R, REG, StartState, AFS, cut, TRUE)
Brief == [n \in DOMAIN hist |-> <<hist[n].t.act, hist[n].t.afc, hist[n].t.q[1], hist[n].t.p[1], hist[n].sd - BaseDay>>]
\* reporting variant for configurations in which the recorded, unrepaired defect of the annual mode can
\* show (histories starting in January): a failure is printed as known when the replay contains a
\* synthetic 'gain summary' sale (dated Jan 1) that was made superficial, and as a failure otherwise
SyntheticSfl(cut) ==
  LET D == Sm!Deltas(R, REG, StartState)
      D2 == Sm!Deltas(Prepare(Sm!Replacement(R, D, REG, cut, TRUE), FALSE), REG, InitState(AFS))
  IN  \E n \in DOMAIN D2 : D2[n].sd <= cut /\ D2[n].row.act = "Sell" /\ D2[n].superficial
                            /\ D2[n].sd = FirstDayOfYear(YearOf(D2[n].sd))
ReportRoundTrip ==
  Complete => \A cut \in CutDays, annual \in BOOLEAN :
     Sm!RoundTrip(R, REG, StartState, AFS, cut, annual)
     \/ PrintT((IF annual /\ SyntheticSfl(cut) THEN "@@RTKNOWN " ELSE "@@RTFAIL ")
                \o ToJson([hist |-> Brief, cut |-> cut - BaseDay, annual |-> annual]))
=============================================================================
