------------------------ MODULE MC_Portfolio_totals ------------------------
(* Two securities over two years (C06): sales at a gain and at a loss with figures ending   *)
(* in half a cent (both signs), a sale traded in December and settled in January, a          *)
(* superficial loss, and a security that fails (over-sale) next to healthy ones.  BaseDay    *)
(* 18300 is 2020-02-08; the gap 330 lands on 2021-01-03.                                      *)
EXTENDS MCPortfolio
q1 == <<1, 0>>  q2 == <<2, 0>>  q3 == <<3, 0>>
TemplatesV ==
  { TBuy("", q3, <<10, 0>>, Z), TBuy("Spouse", q1, <<10, 0>>, Z),
    TSell("", q1, <<12005, 3>>, Z), TSell("", q1, <<9995, 3>>, Z), TSell("", q2, <<7, 0>>, <<5, 3>>),
    Traded(TSell("", q1, <<15, 0>>, Z), 4), TSell("", q3, <<11, 0>>, Z),
    \* a gain and an equal loss: over two years the security's total is exactly zero
    TSell("", q1, <<12, 0>>, Z), TSell("", q1, <<8, 0>>, Z),
    \* two shares acquired at no cost; gains of 0.00999999996 and 0.00500000003: their sum is 1e-11 below one and
    \* a half cent, while the first alone is within 1e-10 of a whole cent (an intermediate figure "tidied" to the
    \* cent would carry the year over the half cent)
    TBuy("", q2, Z, Z), TSell("", q1, <<999999996, 11>>, Z), TSell("", q1, <<500000003, 11>>, Z) }
GapsV == {0, 20, 330}
OpeningsV == {<<>>}
SplitRatiosV == {<<2, 1>>}
SecsV == {"AAA", "BBB"}
=============================================================================
