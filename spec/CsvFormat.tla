------------------------------ MODULE CsvFormat ------------------------------
(***************************************************************************)
(* acb's transaction CSV format as an abstract encoding (property C11):    *)
(* what Write puts into which cell for a list of transactions, what Parse  *)
(* makes of the cells, and the round-trip law Parse(Write(txs)) ~ txs.     *)
(*                                                                         *)
(* An abstract transaction names, per field, the CLASS of its value - the  *)
(* harness instantiates classes with concrete values (decimals of every    *)
(* shape, memos with commas / quotes / newlines / non-ASCII) and runs the  *)
(* real writer and parser:                                                 *)
(*   act   "Buy" "Sell" "RoC" "SfLA" "Split"                               *)
(*   af    "default" "default (R)" "spouse" "spouse (R)" "global"          *)
(*         "default spouse" (another affiliate whose name begins like the  *)
(*         default one's)                                                  *)
(*         (global only for splits)                                        *)
(*   cur   "CAD" "USD" "EUR";  rate TRUE iff an exchange rate is carried   *)
(*         (never for CAD)                                                 *)
(*   ccur  "none" "CAD" "USD" (separate commission currency; USD carries   *)
(*         its rate)                                                       *)
(*   sfl   "none" "val" "val!" "zero" "zero!"  (sales only)                *)
(*   ratio "2-for-1" "10-for-1" "1-for-2" "1.0-for-2.0" "3.5-for-2"          *)
(*         "1.25-for-2.5" "0.125-for-1" "3-for-1.5" "1-for-2.25" (splits   *)
(*         only):                                                          *)
(*         whole-number reverse splits come in two forms - results must    *)
(*         stay whole, or fractions allowed - and the form must survive    *)
(*   dec   class of the decimal values of the row                          *)
(*   memo  class of the memo                                               *)
(***************************************************************************)
EXTENDS Integers, Sequences, FiniteSets, TLC, Json

CONSTANTS Acts, Afs, DecClasses, MemoClasses, MaxTxs

TxSpace ==
  { t \in [act : Acts, af : Afs, cur : {"CAD", "USD", "EUR"}, ccur : {"none", "CAD", "USD"},
           sfl : {"none", "val", "val!", "zero", "zero!"}, ratio : {"none", "2-for-1", "1-for-2", "1.0-for-2.0", "3.5-for-2", "1.25-for-2.5", "0.125-for-1", "10-for-1", "3-for-1.5", "1-for-2.25"},
           dec : DecClasses, memo : MemoClasses] :
      /\ (t.af = "global" => t.act = "Split")
      /\ (t.act = "Split") = (t.ratio # "none")
      /\ (t.sfl # "none" => t.act = "Sell")
      /\ (t.act \in {"Split", "SfLA"} => t.cur = "CAD" /\ t.ccur = "none")
      /\ (t.act = "RoC" => t.ccur = "none")
      \* registered affiliates have no cost base: RoC / SfLA rows are not valid for them
      /\ (t.act \in {"RoC", "SfLA"} => t.af \in {"default", "spouse", "default spouse"}) }

HasRate(t) == t.cur # "CAD"
HasCommRate(t) == t.ccur = "USD"

(***************************************************************************)
(* Write: which optional columns exist, and the cells of one transaction   *)
(***************************************************************************)
Cols(txs) ==
  [rate     |-> \E n \in DOMAIN txs : HasRate(txs[n]),
   ccur     |-> \E n \in DOMAIN txs : txs[n].ccur # "none",
   crate    |-> \E n \in DOMAIN txs : HasCommRate(txs[n]),
   sfl      |-> \E n \in DOMAIN txs : txs[n].sfl # "none",
   ratio    |-> \E n \in DOMAIN txs : txs[n].ratio # "none",
   \* the affiliate column is written only if some transaction names an affiliate other than the
   \* default one; "for all affiliates" is written (and read) as a blank cell
   af       |-> \E n \in DOMAIN txs : txs[n].af \notin {"default", "global"}]
Cell(present, v) == IF present THEN v ELSE "absent"
Write(txs) ==
  LET c == Cols(txs) IN
  [n \in DOMAIN txs |->
     LET t == txs[n] IN
     [act |-> t.act, cur |-> IF t.act \in {"Split", "SfLA"} THEN "" ELSE t.cur, dec |-> t.dec, memo |-> t.memo,
      rate |-> Cell(c.rate, IF HasRate(t) THEN "r" ELSE ""),
      ccur |-> Cell(c.ccur, IF t.ccur = "none" THEN "" ELSE t.ccur),
      crate |-> Cell(c.crate, IF HasCommRate(t) THEN "r" ELSE ""),
      sfl |-> Cell(c.sfl, IF t.sfl = "none" THEN "" ELSE t.sfl),
      ratio |-> Cell(c.ratio, IF t.ratio = "none" THEN "" ELSE t.ratio),
      af |-> Cell(c.af, IF t.af = "global" THEN "" ELSE t.af)]]

(***************************************************************************)
(* Parse: a cell that is absent or blank means "not given"                 *)
(***************************************************************************)
Given(x) == x \notin {"absent", ""}
Parse(rows) ==
  [n \in DOMAIN rows |->
     LET r == rows[n] IN
     [act |-> r.act,
      \* no affiliate given: a split applies to all affiliates, anything else to the default one
      af |-> IF Given(r.af) THEN r.af ELSE IF r.act = "Split" THEN "global" ELSE "default",
      cur |-> IF Given(r.cur) THEN r.cur ELSE "CAD",
      ccur |-> IF Given(r.ccur) THEN r.ccur ELSE "none",
      sfl |-> IF Given(r.sfl) THEN r.sfl ELSE "none",
      ratio |-> IF Given(r.ratio) THEN r.ratio ELSE "none",
      dec |-> r.dec, memo |-> r.memo]]

(***************************************************************************)
(* the law                                                                 *)
(***************************************************************************)
NamesOtherAffiliate(txs) == \E n \in DOMAIN txs : txs[n].af \notin {"default", "global"}
\* a split addressed to the default affiliate may come back as a split for all affiliates when the
\* file names no other affiliate, which is equivalent (and a split given "for all" stays one)
SameTx(t, u, txs) ==
  /\ [t EXCEPT !.af = "x"] = [u EXCEPT !.af = "x"]
  /\ \/ t.af = u.af
     \/ t.act = "Split" /\ t.af = "default" /\ u.af = "global" /\ ~NamesOtherAffiliate(txs)
RoundTrip(txs) ==
  LET back == Parse(Write(txs)) IN
  /\ \A n \in DOMAIN txs : SameTx(txs[n], back[n], txs)
  \* writing the re-read list again yields the same cells
  /\ Write(back) = Write(txs)

VARIABLES txs, done
vars == <<txs, done>>
Init == txs = <<>> /\ done = FALSE
Add == ~done /\ Len(txs) < MaxTxs /\ \E t \in TxSpace : txs' = Append(txs, t) /\ done' = FALSE
Finish == ~done /\ txs # <<>> /\ done' = TRUE /\ UNCHANGED txs
Next == Add \/ Finish
Spec == Init /\ [][Next]_vars

InvRoundTrip == done => RoundTrip(txs)
\* a global split whose file names another affiliate's rows must NOT be confused with a default split
InvGlobalStays == done => \A n \in DOMAIN txs : txs[n].af = "global" => Parse(Write(txs))[n].af = "global"
EmitCase == done => PrintT("@@CASE " \o ToJson([id |-> "csv", txs |-> txs]))
=============================================================================
