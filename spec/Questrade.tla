------------------------------ MODULE Questrade ------------------------------
(***************************************************************************)
(* tx-export-convert on a Questrade activity export (property C18), as a   *)
(* row-by-row state machine: the converter reads the activity rows in      *)
(* order, keeping one pending currency-conversion (FXT) leg, and emits     *)
(* acb transactions:                                                       *)
(*   BUY / SELL / DIS / LIQ  one row with the activity's dates, |quantity|,*)
(*                           price, |commission|, currency, and the        *)
(*                           affiliate of the account type (RRSP / TFSA /  *)
(*                           RESP accounts are registered); if the trade   *)
(*                           is in USD, also a USD.FX row for the cash it  *)
(*                           moved: -(qty x price) - commission for a      *)
(*                           purchase, +(qty x price) - commission for a   *)
(*                           sale (none when that is zero)                 *)
(*   DIV in USD              a USD.FX row for the dividend                 *)
(*   FXT                     legs come in pairs (one CAD, one USD, same    *)
(*                           day and account, opposite signs): one USD.FX  *)
(*                           row for the USD leg with rate |CAD / USD|     *)
(*   anything else           ignored                                       *)
(* A USD.FX row buys |amount| "shares" at 1 when the amount is positive    *)
(* and sells them when negative.  CashConserved: the signed USD.FX share   *)
(* total equals the net USD cash flow of trades, dividends and conversions.*)
(* The output is ordered by settlement date, then time stamp, then: non-FX *)
(* rows, FX purchases, FX sales; ties by row number.                       *)
(***************************************************************************)
EXTENDS Rat, Integers, Sequences, FiniteSets, TLC

\* activity row: [act, sym, cur, qty, price, comm, net (Rat), acct (account type), num (account #), day]
Registered(acctType) == acctType \in {"RRSP", "TFSA", "RESP", "Individual TFSA", "Spousal rrsp"}
AfOf(r) == IF Registered(r.acct) THEN "default (R)" ELSE "default"
IsTrade(r) == r.act \in {"BUY", "SELL", "DIS", "LIQ"}
ActOf(r) == IF r.act \in {"BUY", "DIS"} THEN "Buy" ELSE "Sell"

OutRow(sec, act, q, p, c, cur, hasRate, rate, r, rownum, tiebreak) ==
  [sec |-> sec, act |-> act, q |-> q, p |-> p, c |-> c, cur |-> cur, hasRate |-> hasRate, rate |-> rate,
   af |-> AfOf(r), td |-> r.day, sd |-> IF sec = "USD.FX" THEN r.day ELSE r.sday, acct |-> r.acct, num |-> r.num,
   row |-> rownum, tb |-> tiebreak]
FxRow(amount, hasRate, rate, r, rownum) ==
  OutRow("USD.FX", IF RPos(amount) THEN "Buy" ELSE "Sell", RAbs(amount), ROne, RZero, "USD", hasRate, rate, r, rownum,
         IF RPos(amount) THEN 1 ELSE 2)

\* USD cash moved by a trade
TradeCash(r) ==
  LET gross == RMul(r.price, RAbs(r.qty))
  IN  RSub(IF ActOf(r) = "Buy" THEN RNeg(gross) ELSE gross, RAbs(r.comm))

\* converter state: [out (sequence of rows), fx (sequence of FX rows), pend (<<>> or <<leg>>), err (BOOLEAN)]
Start == [out |-> <<>>, fx |-> <<>>, pend |-> <<>>, err |-> FALSE]
ConvStep(s, r, rownum) ==
  CASE IsTrade(r) ->
         LET t == OutRow(r.sym, ActOf(r), RAbs(r.qty), r.price, RAbs(r.comm), r.cur, FALSE, ROne, r, rownum, 0)
             cash == TradeCash(r)
         IN  [s EXCEPT !.out = Append(@, t),
                       !.fx = IF r.cur = "USD" /\ ~RIsZero(cash) THEN Append(@, FxRow(cash, FALSE, ROne, r, rownum)) ELSE @]
    [] r.act = "DIV" ->
         IF r.cur = "USD" /\ ~RIsZero(r.net) THEN [s EXCEPT !.fx = Append(@, FxRow(r.net, FALSE, ROne, r, rownum))] ELSE s
    [] r.act = "FXT" ->
         IF s.pend = <<>> THEN [s EXCEPT !.pend = <<r>>]
         ELSE LET a == s.pend[1]
                  cad == IF a.cur = "CAD" THEN a ELSE r
                  usd == IF a.cur = "CAD" THEN r ELSE a
                  ok == /\ cad.cur = "CAD" /\ usd.cur = "USD" /\ cad.day = usd.day
                        /\ cad.acct = usd.acct /\ cad.num = usd.num
                        /\ ~RPos(RMul(cad.net, usd.net)) /\ ~RIsZero(usd.net)
              IN  IF ~ok THEN [s EXCEPT !.pend = <<>>, !.err = TRUE]
                  ELSE [s EXCEPT !.pend = <<>>,
                                 !.fx = Append(@, FxRow(usd.net, TRUE, RAbs(RDiv(cad.net, usd.net)), usd, rownum))]
    [] OTHER -> s
RECURSIVE ConvFrom(_, _, _)
ConvFrom(s, rows, k) == IF k > Len(rows) THEN s ELSE ConvFrom(ConvStep(s, rows[k], k + 1), rows, k + 1)
\* (row numbers count the header as row 1)
Convert(rows) == LET s == ConvFrom(Start, rows, 1) IN [s EXCEPT !.err = @ \/ s.pend # <<>>]
Emitted(rows) == LET s == Convert(rows) IN s.out \o s.fx

\* a well-formed export: conversions come in valid pairs
WellFormed(rows) == ~Convert(rows).err

\* signed USD.FX shares against the USD cash flows stated directly from the input
Signed(o) == IF o.act = "Buy" THEN o.q ELSE RNeg(o.q)
UsdFlow(r) ==
  CASE IsTrade(r) /\ r.cur = "USD" -> TradeCash(r)
    [] r.act = "DIV" /\ r.cur = "USD" -> r.net
    [] r.act = "FXT" /\ r.cur = "USD" -> r.net
    [] OTHER -> RZero
CashConserved(rows) ==
  RSumSeq([n \in DOMAIN Convert(rows).fx |-> Signed(Convert(rows).fx[n])]) = RSumSeq([n \in DOMAIN rows |-> UsdFlow(rows[n])])

\* output order
Before(a, b) ==
  \/ a.sd < b.sd
  \/ a.sd = b.sd /\ (\/ a.tb < b.tb
                     \/ a.tb = b.tb /\ a.row < b.row)
=============================================================================
