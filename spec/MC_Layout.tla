------------------------------ MODULE MC_Layout ------------------------------
(* A base input of six rows over two securities with repeated settlement dates (a buy and   *)
(* the loss sale of the same security on one day, where file order decides the result) and   *)
(* its whole orbit under the admissible re-layout steps of module Layout.                     *)
EXTENDS Templates
q1 == <<1, 0>>  q2 == <<2, 0>>  q3 == <<3, 0>>
BaseRowsV == <<
  [sec |-> "AAA", sd |-> 18300, t |-> TBuy("", q3, <<10, 0>>, <<1, 0>>)],
  [sec |-> "BBB", sd |-> 18300, t |-> TBuy("Spouse", q2, <<20, 0>>, Z)],
  [sec |-> "AAA", sd |-> 18310, t |-> TSell("", q1, <<7, 0>>, Z)],
  [sec |-> "AAA", sd |-> 18310, t |-> TBuy("", q2, <<6, 0>>, Z)],
  [sec |-> "BBB", sd |-> 18310, t |-> TSell("Spouse", q1, <<25, 0>>, <<1, 0>>)],
  [sec |-> "AAA", sd |-> 18305, t |-> TBuy("Spouse", q1, <<8, 0>>, Z)] >>
BaseInfoV == [n \in DOMAIN BaseRowsV |-> [sec |-> BaseRowsV[n].sec, sd |-> BaseRowsV[n].sd]]
HeaderVariantsV == 0..5
VARIABLES files, hdr
L == INSTANCE Layout WITH BaseInfo <- BaseInfoV, HeaderVariants <- HeaderVariantsV
LayoutCase ==
  [id |-> "layout",
   files |-> [f \in DOMAIN files |-> [k \in DOMAIN files[f] |->
                [CaseRow([t |-> BaseRowsV[files[f][k]].t, sd |-> BaseRowsV[files[f][k]].sd]) EXCEPT !.sec = BaseRowsV[files[f][k]].sec]]],
   hdr |-> [f \in DOMAIN files |-> hdr], opening |-> [x \in {} |-> 0], tags |-> [mc |-> "layout"]]
LSpecX == L!LSpec
OrderInv == L!OrderInvariant
SwapMat == L!SwapMatters
EmitLayout == PrintT("@@CASE " \o ToJson(LayoutCase))
=============================================================================
