------------------------------- MODULE AcbRun -------------------------------
(***************************************************************************)
(* A whole run of acb over several securities, as a state machine on top   *)
(* of the composed inputs of MCPortfolio: after the input is complete the  *)
(* rows are sorted and split by security (Tx), then the securities are     *)
(* processed ONE AFTER THE OTHER IN AN ARBITRARY ORDER - the order of a     *)
(* hash map in the implementation, a nondeterministic choice here - each   *)
(* row by row through the ledger (Ledger), a refused row ending that       *)
(* security only; finally the gains of the securities that completed are   *)
(* added up per year.                                                      *)
(*                                                                         *)
(* What TLC checks on every input x every processing order:                *)
(*   Recorded     (action property) a result, once recorded, is never      *)
(*                changed by the processing of another security            *)
(*   Confluent    the final results and totals are those of the pure       *)
(*                functions of the input (LedgerOf, MCPortfolio), whatever *)
(*                the order: the report is a function of the input (C08,   *)
(*                C09) and a failing security takes nothing but itself out *)
(*                of the totals (C06, C08)                                 *)
(*   Finishes     every run ends (liveness under weak fairness)            *)
(* The real code is bound to this module through the cases MCPortfolio     *)
(* emits (Trace_Report / Trace_Pair judge its reports with the same pure   *)
(* functions) and through the hash-seed schedules of C09.                  *)
(***************************************************************************)
EXTENDS MCPortfolio

VARIABLE run   \* [stage, todo, cur, k, S, steps, res, years]
rvars == <<pvars, run>>
Idle == [stage |-> "idle", todo |-> {}, cur |-> "", k |-> 0, S |-> InitState(AFS), steps |-> <<>>, res |-> <<>>, years |-> <<>>]
RowsFor(s) == LedgerOf(s).R
\* results are kept as a sequence of [sec, ok, steps] in the order of processing
ResOf(s) == LET ix == { n \in DOMAIN run.res : run.res[n].sec = s } IN IF ix = {} THEN <<>> ELSE run.res[CHOOSE n \in ix : TRUE]
Slim(st) == [ok |-> st.ok, hasGain |-> st.hasGain, gain |-> st.gain, sfl |-> st.sfl, sh |-> st.S.sh, acb |-> st.S.acb]

RInit == PInit /\ run = Idle
RStart ==
  /\ phase = "done" /\ run.stage = "idle"
  /\ run' = [Idle EXCEPT !.stage = "pick", !.todo = UsedSecs]
Pick ==
  /\ run.stage = "pick" /\ run.todo # {}
  /\ \E s \in run.todo : run' = [run EXCEPT !.stage = "rows", !.cur = s, !.k = 1, !.S = InitState(AFS), !.steps = <<>>]
Record(ok) == [run EXCEPT !.stage = "pick", !.todo = @ \ {run.cur}, !.res = Append(@, [sec |-> run.cur, ok |-> ok, steps |-> run.steps]), !.cur = ""]
RowStep ==
  /\ run.stage = "rows" /\ run.k <= Len(RowsFor(run.cur))
  /\ LET st == StepAll(run.S, REG, RowsFor(run.cur), run.k) IN
       IF st.ok THEN run' = [run EXCEPT !.k = @ + 1, !.S = st.S, !.steps = Append(@, Slim(st))]
       ELSE run' = [Record(FALSE) EXCEPT !.res = Append(run.res, [sec |-> run.cur, ok |-> FALSE, steps |-> Append(run.steps, [Slim(st) EXCEPT !.sh = run.S.sh, !.acb = run.S.acb])])]
SecDone ==
  /\ run.stage = "rows" /\ run.k > Len(RowsFor(run.cur))
  /\ run' = Record(TRUE)
\* yearly gains over the securities that completed
GainsIn(steps, rows, y) == RSumOver({ n \in DOMAIN steps : steps[n].hasGain /\ YearOf(rows[n].sd) = y }, LAMBDA n : steps[n].gain)
YearsOf(s) == { YearOf(RowsFor(s)[n].sd) : n \in DOMAIN RowsFor(s) }
Report ==
  /\ run.stage = "pick" /\ run.todo = {}
  /\ LET okSecs == { run.res[n].sec : n \in { n \in DOMAIN run.res : run.res[n].ok } }
         ys == UNION { YearsOf(s) : s \in okSecs }
         yseq == SetToSortSeq(ys, <)
     IN  run' = [run EXCEPT !.stage = "done",
                            !.years = [j \in DOMAIN yseq |-> [year |-> yseq[j], gain |-> RSumOver(okSecs, LAMBDA s : GainsIn(ResOf(s).steps, RowsFor(s), yseq[j]))]]]
RunNext == RStart \/ Pick \/ RowStep \/ SecDone \/ Report
RNext == (PNext /\ UNCHANGED run) \/ (RunNext /\ UNCHANGED pvars)
RSpec == RInit /\ [][RNext]_rvars /\ WF_rvars(RunNext /\ UNCHANGED pvars)

\* ---- properties -------------------------------------------------------
Recorded == [][\A n \in DOMAIN run.res : n \in DOMAIN run'.res /\ run'.res[n] = run.res[n]]_run
CanonSteps(s) == LET L == LedgerOf(s) IN [n \in DOMAIN L.run |-> IF L.run[n].ok THEN Slim(L.run[n])
                                                              ELSE [Slim(L.run[n]) EXCEPT !.sh = (IF n = 1 THEN InitState(AFS) ELSE L.run[n - 1].S).sh,
                                                                                            !.acb = (IF n = 1 THEN InitState(AFS) ELSE L.run[n - 1].S).acb]]
CanonYears ==
  LET okSecs == { s \in UsedSecs : Completed(s) }
      ys == UNION { YearsOf(s) : s \in okSecs }
      yseq == SetToSortSeq(ys, <)
  IN  [j \in DOMAIN yseq |-> [year |-> yseq[j], gain |-> RSumOver(okSecs, LAMBDA s : GainsIn(CanonSteps(s), RowsFor(s), yseq[j]))]]
Confluent ==
  run.stage = "done" =>
    /\ { run.res[n].sec : n \in DOMAIN run.res } = UsedSecs /\ Len(run.res) = Cardinality(UsedSecs)
    /\ \A s \in UsedSecs : ResOf(s).ok = Completed(s) /\ ResOf(s).steps = CanonSteps(s)
    /\ run.years = CanonYears
Finishes == <>(run.stage = "done" \/ phase # "done")
RView == <<hist, psec, phase, run>>
=============================================================================
