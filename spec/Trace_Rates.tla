----------------------------- MODULE Trace_Rates -----------------------------
(***************************************************************************)
(* Trace validation of the real exchange-rate loader against module Rates  *)
(* (properties C12 and C13).  One trace line per case: the publication     *)
(* calendar the mock Bank of Canada served, and the events - runs (a new   *)
(* RateLoader over the same cache, with its own today / today-published /  *)
(* force) and look-ups with the returned rate (its date and value) or the  *)
(* error, and the HTTP requests (years) the look-up caused.                *)
(*                                                                         *)
(* The specification's loader (Rates!Lookup) is stepped alongside; TLC     *)
(* checks, per look-up: the answer is the one the rule demands (Rates!Ref: *)
(* class "ref", C12), the answer and the downloads are those of the        *)
(* specified loader (class "cache", C13), and on every state of the        *)
(* specification: answers equal Ref, a year is downloaded at most once per *)
(* run, and nothing is downloaded when the cached years cover every probed *)
(* date and the run is not forced.                                         *)
(***************************************************************************)
EXTENDS Rat, Dates, Sequences, FiniteSets, Json, IOUtils, TLC

Segs == ndJsonDeserialize(IOEnv.TRACE)
VARIABLES l, k, W, C, tally, chk
vars == <<l, k, W, C, tally, chk>>

R == INSTANCE Rates WITH YearOfDay <- YearOf, FirstDay <- FirstDayOfYear, LastDay <- LastDayOfYear,
                         Lookback <- 7, Revalidate <- TRUE

Eps == Eps9
D(x) == RDec(x.m, x.e)
Seg == Segs[l]

\* calendar entries: <<day, quote, daily?>>; the rate of a day is the quote (noon series, <= 2016) or
\* its reciprocal (daily series, >= 2017)
CalDays(seg) == { seg.cal[n][1] : n \in DOMAIN seg.cal }
QuoteOf(seg, d) == LET c == seg.cal[CHOOSE n \in DOMAIN seg.cal : seg.cal[n][1] = d]
                   IN  IF c[3] THEN RDiv(ROne, D(c[2])) ELSE D(c[2])
EvDays(seg) == { seg.events[n].today : n \in { n \in DOMAIN seg.events : seg.events[n].ev = "run" } } \cup
               { seg.events[n].d : n \in { n \in DOMAIN seg.events : seg.events[n].ev = "lookup" } }
MinOf(T) == CHOOSE x \in T : \A y \in T : x <= y
MaxOfS(T) == CHOOSE x \in T : \A y \in T : y <= x
Range(seg) == LET all == CalDays(seg) \cup EvDays(seg) IN (MinOf(all) - 10)..(MaxOfS(all) + 10)
\* in the specification a published rate is identified by its day (so the source day of every answer is visible)
PubOf(seg) == [d \in Range(seg) |-> IF d \in CalDays(seg) THEN d ELSE R!NoRate]
YearsOf(seg) == { YearOf(d) : d \in Range(seg) }

FailV(cls, detail) == [v |-> "fail", cls |-> cls, detail |-> detail]
OkV == [v |-> "ok", cls |-> "", detail |-> ""]
Chk(cond, cls, detail, rest) == IF cond THEN rest ELSE FailV(cls, detail)

Init == /\ l = 1 /\ k = 0 /\ tally = [ok |-> 0, fail |-> 0, ambig |-> 0, skip |-> 0, steps |-> 0]
        /\ W = [pub |-> <<>>, today |-> 0, todayPub |-> FALSE, force |-> FALSE, wr |-> TRUE] /\ C = R!EmptyLoader({})
        /\ chk = [d |-> -1]

Bump(f) == [tally EXCEPT ![f] = @ + 1]
Conclude(r) ==
  /\ l' = l + 1 /\ k' = 0 /\ tally' = Bump(r.v) /\ chk' = [d |-> -1]
  /\ UNCHANGED <<W, C>>
  /\ (r.v = "fail" => PrintT("@@FAIL " \o ToJson([id |-> Seg.id, sec |-> Seg.cache, line |-> l, cls |-> r.cls, detail |-> r.detail])))

SameSet(seqv, fn) == \* the HTTP requests of a look-up are exactly the years the specified loader downloads
  \A y \in DOMAIN fn : Cardinality({ n \in DOMAIN seqv : seqv[n] = y }) = fn[y]

Describe(r) == IF r.kind = "rate" THEN "the rate of day " \o ToString(r.day) ELSE "an error"

Next ==
  /\ l <= Len(Segs)
  /\ IF k = 0
     THEN /\ k' = 1 /\ W' = [pub |-> PubOf(Seg), today |-> 0, todayPub |-> FALSE, force |-> FALSE, wr |-> TRUE]
          /\ C' = R!EmptyLoader(YearsOf(Seg)) /\ chk' = [d |-> -1] /\ UNCHANGED <<l, tally>>
     ELSE IF k > Len(Seg.events) THEN Conclude(OkV)
     ELSE LET e == Seg.events[k] IN
          IF e.ev = "run"
          THEN /\ W' = [W EXCEPT !.today = e.today, !.todayPub = e.todayPub, !.force = e.force, !.wr = e.wr]
               /\ C' = R!NewRun(C) /\ k' = k + 1 /\ chk' = [d |-> -1] /\ UNCHANGED <<l, tally>>
          ELSE LET s == R!Lookup(W, C, e.d)
                   want == R!Ref(W, e.d)
                   dls == [y \in DOMAIN C.dl |-> s.C.dl[y] - C.dl[y]]
                   v ==
                     Chk(e.kind # "panic" /\ e.nkind # "panic", "panic", "look-up of " \o ToString(e.d) \o " panicked: " \o e.msg,
                     \* C12: the answer of a loader WITHOUT cache over the same data is the one the rule demands
                     Chk(e.nkind = want.kind /\ (e.nkind = "rate" => e.nday = want.day), "ref",
                         "look-up of day " \o ToString(e.d) \o " (today " \o ToString(W.today) \o ") without cache returned "
                           \o Describe([kind |-> e.nkind, day |-> e.nday]) \o ", the rule demands " \o Describe(want),
                     Chk(e.nkind # "rate" \/ RClose(D(e.nval), QuoteOf(Seg, e.nday), Eps), "ref",
                         "rate value differs from the published one for day " \o ToString(e.nday),
                     \* C13: with the cache the answer is exactly the same, and the downloads are the specified ones
                     Chk(e.kind = e.nkind /\ (e.kind = "rate" => e.day = e.nday /\ REq(D(e.val), D(e.nval))), "cache",
                         "look-up of day " \o ToString(e.d) \o " (today " \o ToString(W.today) \o ") returned " \o Describe(e)
                           \o " with the cache and " \o Describe([kind |-> e.nkind, day |-> e.nday]) \o " without",
                     Chk(SameSet(e.http, dls) /\ \A n \in DOMAIN e.http : e.http[n] \in DOMAIN dls, "cache",
                         "downloads differ: requested years " \o ToString(e.http) \o ", specified " \o ToString(dls),
                     OkV)))))
               IN  IF v.v = "ok"
                   THEN /\ C' = s.C /\ k' = k + 1 /\ tally' = Bump("steps")
                        /\ chk' = [d |-> e.d, res |-> s.r, want |-> want, before |-> C, after |-> s.C, force |-> W.force]
                        /\ UNCHANGED <<l, W>>
                   ELSE Conclude(v)
Spec == Init /\ [][Next]_vars

\* properties of the specified loader on every state reached while following the real executions
SpecTransparent == chk.d >= 0 => chk.res = chk.want
SpecAtMostOnce == \A y \in DOMAIN C.dl : C.dl[y] <= 1
SpecNoNeedless ==
  (chk.d >= 0 /\ ~chk.force /\
     \A x \in R!Probed(chk.d) : YearOf(x) \in chk.before.hasDisk /\ x \in DOMAIN chk.before.disk[YearOf(x)])
  => chk.after.dl = chk.before.dl

Done == l = Len(Segs) + 1
Summary == Done => PrintT("@@SUMMARY " \o ToJson(tally))
Accepted == TLCGet("stats").diameter >= Len(Segs) + 1
=============================================================================
