------------------------------ MODULE FrontEnd ------------------------------
(***************************************************************************)
(* The front end of acb as a pipeline of stages (the classes of inputs and *)
(* the rules are in module FrontEndRules): options, header, parse (row by  *)
(* row), rates (row by row), convert (row by row), process, render.        *)
(***************************************************************************)
EXTENDS FrontEndRules
\* ---- the pipeline as a state machine ---------------------------------
VARIABLES inp,      \* the input: [fe, opening, opts, header, rows, vals]
          stage,    \* "options" "header" "parse" "convert" "process" "render" "exit"
          pos,      \* row cursor of the parse / convert stages
          touched,  \* rows read so far
          out       \* how the run ends: [kind, attr, row, flagged]
fvars == <<inp, stage, pos, touched, out>>
Rows == Visible(inp.rows)
Fmt == FmtOf(inp.opts)

FeInit(i) == inp = i /\ stage = "options" /\ pos = 1 /\ touched = 0 /\ out = NoOut
Exit(o) == stage' = "exit" /\ out' = o /\ UNCHANGED <<inp, pos, touched>>
Options ==
  /\ stage = "options"
  /\ IF inp.opening \in OpeningBad THEN Exit(Diag(OpeningAttr(inp.fe), 0))
     ELSE IF inp.opts \cap OptBad # {} THEN Exit(Diag({"message"}, 0))
     ELSE stage' = "header" /\ UNCHANGED <<inp, pos, touched, out>>
Header ==
  /\ stage = "header"
  /\ IF inp.header \in HeaderBad THEN Exit(Diag({"file"}, 0))
     ELSE IF inp.header \in HeaderAny THEN Exit(AnyOut)
     ELSE stage' = "parse" /\ UNCHANGED <<inp, pos, touched, out>>
ParseRow ==
  /\ stage = "parse" /\ pos <= Len(Rows)
  /\ IF ParseBad(Rows[pos], Fmt) THEN stage' = "exit" /\ out' = Diag({"file", "row"}, pos + 1) /\ touched' = touched + 1 /\ UNCHANGED <<inp, pos>>
     ELSE pos' = pos + 1 /\ touched' = touched + 1 /\ UNCHANGED <<inp, stage, out>>
ParseDone ==
  /\ stage = "parse" /\ pos > Len(Rows)
  /\ stage' = "rates" /\ pos' = 1 /\ UNCHANGED <<inp, touched, out>>
RatesRow ==
  /\ stage = "rates" /\ pos <= Len(Rows)
  /\ IF RatesBad(Rows[pos]) THEN Exit(Diag({"file"}, 0))
     ELSE pos' = pos + 1 /\ UNCHANGED <<inp, stage, touched, out>>
RatesDone ==
  /\ stage = "rates" /\ pos > Len(Rows)
  /\ stage' = "convert" /\ pos' = 1 /\ UNCHANGED <<inp, touched, out>>
ConvertRow ==
  /\ stage = "convert" /\ pos <= Len(Rows)
  /\ IF ConvertBad(Rows[pos]) THEN Exit(Diag({"file", "row"}, pos + 1))
     ELSE pos' = pos + 1 /\ UNCHANGED <<inp, stage, touched, out>>
ConvertDone ==
  /\ stage = "convert" /\ pos > Len(Rows)
  /\ stage' = "process" /\ UNCHANGED <<inp, pos, touched, out>>
Flag == IF \E k \in DOMAIN Rows : Rows[k] \in SureRefused THEN "yes"
        ELSE IF \E k \in DOMAIN Rows : Rows[k] \in Contextual THEN "any" ELSE "no"
Process ==
  /\ stage = "process"
  /\ IF inp.opts \cap OptSummary # {} /\ Flag = "yes" THEN Exit([Diag({"security"}, 0) EXCEPT !.flagged = "yes"])
     ELSE stage' = "render" /\ out' = [NoOut EXCEPT !.flagged = Flag] /\ UNCHANGED <<inp, pos, touched>>
Render ==
  /\ stage = "render"
  \* a summary of a history that may be refused, or that leaves nothing to summarise, may end either way
  /\ Exit([out EXCEPT !.kind = IF inp.opts \cap OptSummary # {} /\ out.flagged = "any" THEN "any" ELSE "report"])
FeNext == Options \/ Header \/ ParseRow \/ ParseDone \/ RatesRow \/ RatesDone \/ ConvertRow \/ ConvertDone \/ Process \/ Render

\* ---- the properties of the design ------------------------------------
EndsWell == stage = "exit" => out.kind \in {"report", "diag", "any"} /\ (out.kind = "diag" => out.attr # {})
\* a malformed opening position is refused before anything is read
OpeningFirst == (stage = "exit" /\ inp.opening \in OpeningBad) => out = Diag(OpeningAttr(inp.fe), 0) /\ touched = 0
\* a refused row is named by its own number (the header is row 1)
RowNamed == (stage = "exit" /\ "row" \in out.attr) => out.row \in 2..(Len(inp.rows) + 1) /\ (ParseBad(inp.rows[out.row - 1], Fmt) \/ ConvertBad(inp.rows[out.row - 1]))
Terminates == <>(stage = "exit")

FnAgrees == stage = "exit" => out = Expected(inp)
=============================================================================
