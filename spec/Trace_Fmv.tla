------------------------------ MODULE Trace_Fmv ------------------------------
(***************************************************************************)
(* Property C20 on the real extractor: one trace line per case.            *)
(*   kind "tab"    an allocation table (module Fmv) rendered as a          *)
(*                 statement page - as text and as a real PDF - and what   *)
(*                 parse_statement_text returned for it                    *)
(*   kind "pages"  (page count, hints): the groups returned by             *)
(*                 safe_page_chunks_with_remainder(_pn) and the <<page,    *)
(*                 text>> pairs OptimizedPageIter yielded on a real        *)
(*                 n-page document (sequential and parallel loading)       *)
(*   kind "stmt"   a statement with the month on page m, tables on pages   *)
(*                 t.., read by the library pipeline and by the binary     *)
(* classes                                                                 *)
(*   "table"  a security missing / twice / with a wrong description,       *)
(*            allocation or value; wrong total; wrong month; refused       *)
(*   "pages"  a page skipped, a page that does not exist requested, pages  *)
(*            out of hint order, a text yielded for the wrong page         *)
(*   "stmt"   a documented statement not read / read from the wrong page   *)
(*   "panic"  any panic                                                    *)
(*   "bind"   the lines fed are not Render(table) (harness / trace defect) *)
(***************************************************************************)
EXTENDS Fmv, Pages, Json, IOUtils
Recs == ndJsonDeserialize(IOEnv.TRACE)
VARIABLES l, tally
vars == <<l, tally>>
D(x) == RDec(x.m, x.e)
FailV(cls, detail) == [v |-> "fail", cls |-> cls, detail |-> detail]
OkV == [v |-> "ok", cls |-> "", detail |-> ""]
Chk(cond, cls, detail, rest) == IF cond THEN rest ELSE FailV(cls, detail)

\* ---- tables
Tag(t) == IF Ambiguous(t) THEN "[hundred-on-own-line-after-number-pair] " ELSE ""
SecIs(o, e) == o.desc = e.desc /\ REq(D(o.alloc), e.alloc) /\ REq(D(o.value), e.value)
JudgeRun(rec, run, exp) ==
  LET o == run.obs  tag == Tag(rec.table) \o "(" \o run.via \o ") " IN
  Chk(~run.panicked, "panic", tag \o "the extractor panicked",
  Chk(o.ok, "table", tag \o "a table in the documented layout was refused: " \o o.err,
  Chk(Len(o.secs) = Len(exp.secs), "table", tag \o ToString(Len(o.secs)) \o " securities returned for a table listing " \o ToString(Len(exp.secs)),
  Chk(\A i \in DOMAIN exp.secs : SecIs(o.secs[i], exp.secs[i]), "table", tag \o "a security came back with a different description, allocation or market value",
  Chk(REq(D(o.total), exp.total), "table", tag \o "the table total came back different",
  Chk(o.month = rec.month, "table", tag \o "the statement month came back different",
  OkV))))))
RECURSIVE JudgeRuns(_, _, _)
JudgeRuns(rec, k, exp) ==
  IF k > Len(rec.runs) THEN OkV
  ELSE LET r == JudgeRun(rec, rec.runs[k], exp) IN IF r.v = "fail" THEN r ELSE JudgeRuns(rec, k + 1, exp)
JudgeTab(rec) ==
  Chk(rec.lines = Render(rec.table), "bind", "the lines fed to the extractor are not Render(table)",
  JudgeRuns(rec, 1, Expected(rec.table)))

\* ---- pages
PagesOf(y) == [i \in DOMAIN y |-> y[i][1]]
RECURSIVE JudgeIters(_, _, _)
JudgeIters(rec, k, exp) ==
  IF k > Len(rec.runs) THEN OkV
  ELSE LET r == rec.runs[k]  m == "(" \o r.mode \o ") " IN
       Chk(~r.panicked, "panic", m \o "the page iterator panicked",
       Chk(\A i \in DOMAIN r.yielded : r.yielded[i][1] >= 1 /\ r.yielded[i][1] <= rec.n, "pages", m \o "a page that does not exist was requested",
       Chk(Range(PagesOf(r.yielded)) = 1..rec.n, "pages", m \o "a page of the document was skipped",
       Chk(\A i \in DOMAIN r.yielded : r.yielded[i][2] = r.yielded[i][1], "pages", m \o "a page was yielded with the text of another page",
       Chk(PagesOf(r.yielded) = PagesOf(exp.y), "pages", m \o "pages were not yielded in the order of the groups",
       JudgeIters(rec, k + 1, exp))))))
JudgePages(rec) ==
  LET g == SafeChunks(rec.n, rec.hints) IN
  Chk(Range(Flatten(rec.groups_pn)) \subseteq 1..rec.n, "pages", "the page groups name a page that does not exist",
  Chk(1..rec.n \subseteq Range(Flatten(rec.groups_pn)), "pages", "the page groups skip a page of the document",
  Chk(rec.groups_pn = g, "pages", "the page groups are not: existing hinted pages in hint order, then all other pages",
  Chk(rec.groups_doc = g, "pages", "the page groups computed from the document differ from those computed from its page count",
  JudgeIters(rec, 1, IterFn(rec.n, g))))))

\* ---- statements
Documented(rec) == 1 \in Range(rec.month) \/ Range(rec.month) = Range(rec.table)
JudgeStmt(rec) ==
  LET doc == [month |-> Range(rec.month), table |-> Range(rec.table)]
      exp == Scan(ToolOrder(rec.n), doc)
      o == rec.lib
      right == /\ Len(o.secs) = 2 /\ REq(D(o.total), RN(1000 + exp.table)) /\ o.month = <<2024, 3, exp.month>>
  IN
  Chk(~rec.lib_panicked /\ ~rec.cli.panicked, "panic", "the extractor panicked: " \o rec.cli.stderr,
  IF Documented(rec)
  THEN Chk(exp.res = "ok", "bind", "the model does not read a documented statement",
       Chk(o.ok, "stmt", "a statement with the month on page 1 (or on the table's page) was not read: " \o o.err,
       Chk(right, "stmt", "the holdings, total or month were not taken from the first table page / month page in page order",
       Chk(rec.cli.exit = 0, "stmt", "the binary failed on a statement the library reads: " \o rec.cli.stderr,
       Chk(rec.cli.total = ToString(1000 + exp.table) \o ".00", "stmt", "the binary printed another total than the library returned",
       OkV)))))
  ELSE \* not prescribed by the property: if it is read, it must be read right
       Chk(o.ok => (exp.res = "ok" /\ right), "stmt", "a statement was read from the wrong page",
       Chk((rec.cli.exit = 0) = o.ok, "stmt", "binary and library disagree on whether the statement can be read",
       OkV)))

Judge(rec) == CASE rec.kind = "tab" -> JudgeTab(rec) [] rec.kind = "pages" -> JudgePages(rec) [] OTHER -> JudgeStmt(rec)
Steps(rec) == IF rec.kind = "tab" THEN Len(rec.lines) ELSE IF rec.kind = "pages" THEN rec.n + 1 ELSE rec.n
Init == l = 1 /\ tally = [ok |-> 0, fail |-> 0, ambig |-> 0, skip |-> 0, steps |-> 0]
Next ==
  /\ l <= Len(Recs)
  /\ LET r == Judge(Recs[l]) IN
     /\ tally' = [tally EXCEPT ![r.v] = @ + 1, !.steps = @ + Steps(Recs[l])]
     /\ (r.v = "fail" => PrintT("@@FAIL " \o ToJson([id |-> Recs[l].id, sec |-> "*", line |-> l, cls |-> r.cls, detail |-> r.detail])))
  /\ l' = l + 1
Spec == Init /\ [][Next]_vars
Done == l = Len(Recs) + 1
Summary == Done => PrintT("@@SUMMARY " \o ToJson(tally))
Accepted == TLCGet("stats").diameter >= Len(Recs) + 1
=============================================================================
