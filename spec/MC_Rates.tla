------------------------------ MODULE MC_Rates ------------------------------
(***************************************************************************)
(* Exhaustive exploration of the rate loader over a tiny calendar:         *)
(* NYears years of YearLen days, look-back LB days, every publication      *)
(* calendar in Calendars, any sequence of runs (today never goes back,     *)
(* today's rate published or not, forced or not) and any look-ups within   *)
(* each run, starting from an empty cache.                                 *)
(*   CacheTransparent  every look-up returns what the rule (Rates!Ref)     *)
(*                     gives on the data available to that run      (C13)  *)
(*   AtMostOnce        a year is downloaded at most once per run     (C13)  *)
(*   NoNeedless        not forced, every probed date covered by the cached *)
(*                     year(s) => no download                        (C13)  *)
(* Each behaviour (runs and look-ups) is emitted as a case for the harness. *)
(***************************************************************************)
EXTENDS Integers, Sequences, FiniteSets, TLC, Json

CONSTANTS YearLen, NYears, LB, MaxRuns, MaxLookups, Calendars, Reval,
          WriteOutcomes, \* {TRUE}: cache writes succeed; {TRUE, FALSE}: a run may be unable to write the cache
          MinLookup      \* look-ups are for days >= MinLookup (0, or LB to keep look-backs inside the calendar)
Days == 0..(YearLen * NYears - 1)
Years == -1..(NYears - 1)      \* year -1: the (empty) year before the calendar, reached by look-backs
YearOfDayMC(d) == IF d < 0 THEN -1 ELSE d \div YearLen

R == INSTANCE Rates WITH YearOfDay <- YearOfDayMC, FirstDay <- LAMBDA y : y * YearLen,
                         LastDay <- LAMBDA y : y * YearLen + YearLen - 1, Lookback <- LB, Revalidate <- Reval

LookupDays == { d \in Days : d >= MinLookup }
VARIABLES W, C, nruns, nlook, last, log
vars == <<W, C, nruns, nlook, last, log>>

\* rate published for day d (distinct per day, so that the source day of an answer is visible)
RateOf(d) == 100 + d
PubOf(cal) == [d \in (-YearLen)..(YearLen * NYears - 1) |-> IF d \in cal THEN RateOf(d) ELSE R!NoRate]

NoLast == [d |-> -1, res |-> R!Err, want |-> R!Err, dlBefore |-> [y \in Years |-> 0], diskBefore |-> [y \in Years |-> R!NoYear], hadDisk |-> {}, force |-> FALSE]
Init ==
  /\ \E cal \in Calendars, t \in Days, tp \in BOOLEAN, f \in BOOLEAN, w \in WriteOutcomes :
        W = [pub |-> PubOf(cal), today |-> t, todayPub |-> tp, force |-> f, wr |-> w]
  /\ C = R!EmptyLoader(Years)
  /\ nruns = 1 /\ nlook = 0 /\ last = NoLast
  /\ log = <<[ev |-> "run", today |-> W.today, todayPub |-> W.todayPub, force |-> W.force, wr |-> W.wr]>>

StartRun ==
  /\ nruns < MaxRuns /\ nlook > 0
  /\ \E t \in Days \cup {YearLen * NYears}, tp \in BOOLEAN, f \in BOOLEAN, w \in WriteOutcomes :
        /\ t >= W.today
        \* a rate that was out stays out: same day => todayPub cannot go back
        /\ (t = W.today /\ W.todayPub) => tp
        /\ W' = [W EXCEPT !.today = t, !.todayPub = tp, !.force = f, !.wr = w]
        /\ log' = Append(log, [ev |-> "run", today |-> t, todayPub |-> tp, force |-> f, wr |-> w])
  /\ C' = R!NewRun(C)
  /\ nruns' = nruns + 1 /\ nlook' = 0 /\ last' = NoLast

DoLookup ==
  /\ nlook < MaxLookups
  /\ \E d \in LookupDays :
        LET e == R!Lookup(W, C, d) IN
        /\ C' = e.C
        /\ last' = [d |-> d, res |-> e.r, want |-> R!Ref(W, d), dlBefore |-> C.dl, diskBefore |-> C.disk, hadDisk |-> C.hasDisk, force |-> W.force]
        /\ log' = Append(log, [ev |-> "lookup", d |-> d])
  /\ nlook' = nlook + 1
  /\ UNCHANGED <<W, nruns>>

Next == StartRun \/ DoLookup
Spec == Init /\ [][Next]_vars

CacheTransparent == last.d >= 0 => last.res = last.want
AtMostOnce == \A y \in Years : C.dl[y] <= 1
NoNeedless ==
  (last.d >= 0 /\ ~last.force /\
     \A e \in R!Probed(last.d) : (YearOfDayMC(e) \in last.hadDisk /\ e \in DOMAIN last.diskBefore[YearOfDayMC(e)]))
  => C.dl = last.dlBefore
\* the cache never holds anything but published rates and placeholders for days without one
DiskTruthful ==
  \A y \in C.hasDisk :
     \A d \in DOMAIN C.disk[y] : C.disk[y][d] \in {R!NoRate, W.pub[d]} /\ (C.disk[y][d] = R!NoRate => d \notin R!Avail(W))

\* emission: the calendar and the behaviour so far, whenever a run has used up its look-ups
Case == [id |-> "mcrates", yearLen |-> YearLen, nYears |-> NYears,
         cal |-> [d \in Days |-> W.pub[d]], events |-> log]
EmitCase == (nlook = MaxLookups /\ nruns = MaxRuns) => PrintT("@@CASE " \o ToJson(Case))
\* the emitted log is a history variable: keep it out of the fingerprint
View == <<W, C, nruns, nlook, last>>
=============================================================================
