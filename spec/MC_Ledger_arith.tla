-------------------------- MODULE MC_Ledger_arith --------------------------
(* Alphabet for the average-cost arithmetic (C01): three affiliates (one registered), two    *)
(* share counts, CAD and USD@1.5 amounts, a commission in a third currency, return of        *)
(* capital, explicit cost-base adjustment, forward / reverse / fractional splits, with and   *)
(* without an opening position.  Gaps keep most rows outside each other's 30-day window, so   *)
(* that the arithmetic - not the superficial-loss rule - dominates.                           *)
EXTENDS MCLedger
q1 == <<1, 0>>  q3 == <<3, 0>>  q25 == <<25, 1>>
usd == <<15, 1>>  eur == <<14, 1>>
TemplatesV ==
  { TBuy(a, q, <<10, 0>>, <<2, 0>>) : a \in {"", "Spouse", "(R)"}, q \in {q1, q3} } \cup
  { TBuyFx("", q3, <<7, 0>>, <<1, 0>>, "USD", usd, "", One),
    TBuyFx("Spouse", q25, <<4, 0>>, <<3, 0>>, "USD", usd, "EUR", eur),
    TBuyFx("", q1, <<9, 0>>, <<1, 0>>, "USD", usd, "CAD", One),
    \* commission in the trade's own currency, converted at its own (different) rate
    TBuyFx("", q3, <<8, 0>>, <<2, 0>>, "USD", usd, "USD", <<125, 2>>) } \cup
  { TSell(a, q1, <<12, 0>>, <<1, 0>>) : a \in {"", "Spouse", "(R)"} } \cup
  { TSell("", q3, <<5, 0>>, Z), TSell("Spouse", q25, <<20, 0>>, Z),
    TSellFx("", q1, <<9, 0>>, <<2, 0>>, "USD", usd, "EUR", eur),
    TSellFx("Spouse", q1, <<2, 0>>, <<1, 0>>, "USD", usd, "", One),
    TSellFx("", q1, <<11, 0>>, <<1, 0>>, "USD", usd, "USD", <<14, 1>>) } \cup
  { TRoc("", <<1, 0>>), TRoc("Spouse", <<25, 1>>), TSfla("", q1, <<3, 0>>), TSfla("Spouse", q3, <<15, 1>>) } \cup
  { TSplit("*", "2-for-1", <<2, 0>>, One, FALSE), TSplit("*", "1-for-2", One, <<2, 0>>, TRUE),
    TSplit("Spouse", "3-for-2", <<3, 0>>, <<2, 0>>, FALSE), TSplit("", "1.0-for-4.0", One, <<4, 0>>, FALSE),
    \* thirds: share counts that no decimal represents exactly
    TSplit("*", "1.0-for-3.0", One, <<3, 0>>, FALSE) }
GapsV == {0, 45}
SplitRatiosV == {<<2, 1>>, <<1, 2>>, <<3, 2>>, <<1, 3>>}
OpeningsV == {<<>>, <<<<5, 0>>, <<37, 0>>>>}
=============================================================================
