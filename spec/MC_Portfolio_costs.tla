------------------------- MODULE MC_Portfolio_costs -------------------------
(* Two securities, default affiliate plus one other and a registered one; buys and sells    *)
(* (including buying and selling everything on one day), a return of capital; gaps of zero   *)
(* days, one day, and across a year end.                                                      *)
EXTENDS MCPortfolio
q1 == <<1, 0>>  q2 == <<2, 0>>
TemplatesV ==
  { TBuy("", q2, <<10, 0>>, Z), TBuy("", q1, <<30, 0>>, <<5, 0>>), TSell("", q2, <<12, 0>>, Z), TSell("", q1, <<9, 0>>, Z),
    TRoc("", <<2, 0>>), TBuy("Spouse", q1, <<10, 0>>, Z), TBuy("(R)", q1, <<10, 0>>, Z) }
GapsV == {0, 1, 400}
OpeningsV == {<<>>}
SplitRatiosV == {<<2, 1>>}
SecsV == {"AAA", "BBB"}
=============================================================================
