--------------------------------- MODULE Fmv ---------------------------------
(***************************************************************************)
(* questrade-statement-fmv (property C20), part 1: the allocation table    *)
(* "Securities Owned Combined in (CAD)" and the line-by-line state machine *)
(* that reads it (FmvParseSm in questrade_statement_fmv_impl.rs),          *)
(* transcribed at the level of whitespace-separated TOKENS.                *)
(*                                                                         *)
(* A token is [s (its text), k (its shape), v (its value, for numbers)]:   *)
(*   "word"     nothing number-shaped: GIC  (XXXXXX)  4.00%  01/01/2024 1Y *)
(*   "num"      digits and dots, two or more characters: 4.5  2025  20.0   *)
(*   "money"    digits, dots and commas: 20,000.0                          *)
(*   "hundred"  100.0 or 100.00                                            *)
(*   "digit"    a single digit                                             *)
(* which is all the three regular expressions of the reader distinguish:   *)
(*   allocation  ^\d[0-9.]+$    = num, hundred                             *)
(*   value       ^\d[0-9,.]*$   = num, money, hundred, digit               *)
(*   total row   ^100.00? <\d[0-9,.]+>$ = a hundred, then num/money/hundred*)
(*                                                                         *)
(* The documented layout of a security (see the comment above              *)
(* parse_fmvs_from_page and the unit tests): a bullet, the description on  *)
(* one or more lines, then allocation and market value - at the end of the *)
(* last description line or on a line of their own; after the last         *)
(* security the total row "100.0 <total>".                                 *)
(***************************************************************************)
EXTENDS Rat, Integers, Sequences, FiniteSets, TLC

\* numbers carry their value as mantissa m and scale e (m / 10^e)
W(s) == [s |-> s, k |-> "word", m |-> 0, e |-> 0]
N(s, m, e) == [s |-> s, k |-> "num", m |-> m, e |-> e]
M(s, m, e) == [s |-> s, k |-> "money", m |-> m, e |-> e]
H(s) == [s |-> s, k |-> "hundred", m |-> 100, e |-> 0]
Dg(s, m) == [s |-> s, k |-> "digit", m |-> m, e |-> 0]
Val(t) == RDec(t.m, t.e)

AllocShaped(t) == t.k \in {"num", "hundred"}
ValueShaped(t) == t.k \in {"num", "money", "hundred", "digit"}
TotalShaped(t) == t.k \in {"num", "money", "hundred"}

\* a line of the page: [bullet, header, toks]
Line(toks) == [bullet |-> FALSE, header |-> FALSE, toks |-> toks]
BulletLine(toks) == [bullet |-> TRUE, header |-> FALSE, toks |-> toks]
HeaderLine == [bullet |-> FALSE, header |-> TRUE, toks |-> <<W("ALLOCATION"), W("(%)"), W("MARKET"), W("VALUE"), W("($)")>>]
TotalLike(ln) == ~ln.bullet /\ Len(ln.toks) = 2 /\ ln.toks[1].k = "hundred" /\ TotalShaped(ln.toks[2])

(***************************************************************************)
(* the table and its rendering                                             *)
(*   security: [desc (sequence of lines, each a sequence of tokens),       *)
(*              alloc (token), value (token), own (data on its own line)]  *)
(*   table:    [secs, hundred (token of the total row), total (token),     *)
(*              before / after (lines around the table on the page)]       *)
(***************************************************************************)
RenderSec(sec) ==
  LET n == Len(sec.desc)
      data == <<sec.alloc, sec.value>>
      lines == [i \in 1..n |-> IF i = n /\ ~sec.own THEN sec.desc[i] \o data ELSE sec.desc[i]]
      all == IF sec.own THEN Append(lines, data) ELSE lines
  IN  [i \in DOMAIN all |-> IF i = 1 THEN BulletLine(all[i]) ELSE Line(all[i])]
RECURSIVE RenderSecs(_)
RenderSecs(secs) == IF secs = <<>> THEN <<>> ELSE RenderSec(Head(secs)) \o RenderSecs(Tail(secs))
Render(t) == t.before \o <<HeaderLine>> \o RenderSecs(t.secs) \o <<Line(<<t.hundred, t.total>>)>> \o t.after

RECURSIVE FlattenToks(_)
FlattenToks(lines) == IF lines = <<>> THEN <<>> ELSE Head(lines) \o FlattenToks(Tail(lines))
BulletToks(sec) == FlattenToks(sec.desc)
\* what must come back: per security its description (the tokens of all its lines), allocation, value
ExpectedSec(sec) == [desc |-> [i \in DOMAIN FlattenToks(sec.desc) |-> FlattenToks(sec.desc)[i].s], alloc |-> Val(sec.alloc), value |-> Val(sec.value)]
Expected(t) == [ok |-> TRUE, secs |-> [i \in DOMAIN t.secs |-> ExpectedSec(t.secs[i])], total |-> Val(t.total)]

(***************************************************************************)
(* the reader, line by line: a total-like line ends the table as soon as   *)
(* the text gathered for the current security ends in an allocation and a  *)
(* value; otherwise it belongs to the security (a 100% holding whose data  *)
(* are on their own line)                                                  *)
(***************************************************************************)
SmInit == [st |-> "header", desc |-> <<>>, secs |-> <<>>, total |-> RZero, err |-> ""]
CanFinalize(desc) == Len(desc) >= 3 /\ AllocShaped(desc[Len(desc) - 1]) /\ ValueShaped(desc[Len(desc)])
Finalized(desc) == [desc |-> [i \in 1..(Len(desc) - 2) |-> desc[i].s], alloc |-> Val(desc[Len(desc) - 1]), value |-> Val(desc[Len(desc)])]
Fail(sm, why) == [sm EXCEPT !.st = "err", !.err = why]
\* gather_security_line
Gather(sm, ln) ==
  IF ln.bullet
  THEN IF sm.desc # <<>>
       THEN IF CanFinalize(sm.desc) THEN [sm EXCEPT !.secs = Append(@, Finalized(sm.desc)), !.desc = ln.toks]
            ELSE Fail(sm, "unterminated security")
       ELSE [sm EXCEPT !.desc = ln.toks]
  ELSE [sm EXCEPT !.desc = @ \o ln.toks]
Finish(sm, ln) == [sm EXCEPT !.st = "done", !.total = Val(ln.toks[2])]
SmStep(sm, ln) ==
  CASE sm.st = "header" -> IF ln.header THEN [sm EXCEPT !.st = "first"] ELSE sm
    [] sm.st = "first" ->
         IF ln.bullet THEN Gather([sm EXCEPT !.st = "gather"], ln)
         ELSE IF TotalLike(ln) THEN Finish(sm, ln) ELSE sm
    [] sm.st = "gather" ->
         IF TotalLike(ln)
         THEN IF CanFinalize(sm.desc)
              THEN Finish([sm EXCEPT !.secs = Append(@, Finalized(sm.desc))], ln)
              ELSE Gather(sm, ln)
         ELSE Gather(sm, ln)
    [] OTHER -> sm
RECURSIVE SmRun(_, _, _)
SmRun(sm, lines, k) ==
  IF k > Len(lines) \/ sm.st \in {"done", "err"} THEN sm
  ELSE SmRun(SmStep(sm, lines[k]), lines, k + 1)
Parse(lines) ==
  LET sm == SmRun(SmInit, lines, 1)
  IN  IF sm.st = "done" THEN [ok |-> TRUE, secs |-> sm.secs, total |-> sm.total]
      ELSE [ok |-> FALSE, secs |-> <<>>, total |-> RZero]

\* the law
ReadsBack(t) == Parse(Render(t)) = Expected(t)
(***************************************************************************)
(* One shape of table is inherently ambiguous for a line-by-line reader: a *)
(* 100% allocation on a line of its own, after a description that itself   *)
(* ends in two number-shaped tokens ("... SERIES 4.5 2025" / "100.0        *)
(* 99,999.99") reads like a finished security followed by the total row.   *)
(* MC_Fmv shows that ReadsBack fails for exactly these tables (and that    *)
(* looking one line ahead does not repair it).                             *)
(***************************************************************************)
Ambiguous(t) == \E i \in DOMAIN t.secs : t.secs[i].own /\ t.secs[i].alloc.k = "hundred" /\ CanFinalize(BulletToks(t.secs[i]))
=============================================================================
