----------------------------- MODULE Trace_Crash -----------------------------
(***************************************************************************)
(* Property C14 on the real code.  One trace line per crash point of a     *)
(* real cache write (the process was killed after exactly k bytes, or      *)
(* before/after a named system call): the system-call trace of the        *)
(* uninterrupted write, and what a fresh loader then answered for every    *)
(* date over the surviving cache directory.                                *)
(*   class "proc"     the observed write procedure is not the one the      *)
(*                    model (CacheWrite) shows to be crash-safe:           *)
(*                    create(tmp) write+ fsync(tmp) close(tmp)             *)
(*                    rename(tmp, final)                                   *)
(*   class "corrupt"  after the crash some look-up answered anything but   *)
(*                    what the rule demands on the published data          *)
(***************************************************************************)
EXTENDS Rat, Dates, Sequences, FiniteSets, Json, IOUtils, TLC

Recs == ndJsonDeserialize(IOEnv.TRACE)
VARIABLES l, tally
vars == <<l, tally>>
R == INSTANCE Rates WITH YearOfDay <- YearOf, FirstDay <- FirstDayOfYear, LastDay <- LastDayOfYear,
                         Lookback <- 7, Revalidate <- TRUE
CW == INSTANCE CacheWrite WITH WriteProc <- "tmp-sync-rename", CrashKinds <- {"kill", "power"},
                               NRowsOld <- 0, NRowsNew <- 1, RateLen <- 2,
                               names <- <<>>, pc <- "", pos <- 0, synced <- FALSE, crashed <- ""
Eps == Eps9
D(x) == RDec(x.m, x.e)

CalDays(rec) == { rec.cal[n][1] : n \in DOMAIN rec.cal }
QuoteOf(rec, d) == LET c == rec.cal[CHOOSE n \in DOMAIN rec.cal : rec.cal[n][1] = d]
                   IN  IF c[3] THEN RDiv(ROne, D(c[2])) ELSE D(c[2])
Lo(rec) == (CHOOSE x \in CalDays(rec) : \A y \in CalDays(rec) : x <= y) - 60
World(rec) == [pub |-> [d \in Lo(rec)..(rec.today + 10) |-> IF d \in CalDays(rec) THEN d ELSE R!NoRate],
               today |-> rec.today, todayPub |-> FALSE, force |-> FALSE, wr |-> TRUE]

\* the system calls, abstracted: tmp = a name ending in ".tmp", consecutive writes collapsed
IsTmp(name) == Len(name) > 4 /\ SubSeq(name, Len(name) - 3, Len(name)) = ".tmp"
Abstract(e) ==
  CASE e.op = "create" -> "create:" \o (IF IsTmp(e.name) THEN "tmp" ELSE "final")
    [] e.op = "write"  -> "write:" \o (IF IsTmp(e.name) THEN "tmp" ELSE "final")
    [] e.op = "fsync"  -> "fsync:" \o (IF IsTmp(e.name) THEN "tmp" ELSE "final")
    [] e.op = "close"  -> "close:" \o (IF IsTmp(e.name) THEN "tmp" ELSE "final")
    [] e.op = "rename" -> "rename:tmp:final"
    [] OTHER -> e.op
RECURSIVE Collapse(_)
Collapse(s) == IF Len(s) <= 1 THEN s
               ELSE IF s[1] = s[2] /\ SubSeq(s[1], 1, 5) = "write" THEN Collapse(Tail(s))
               ELSE <<s[1]>> \o Collapse(Tail(s))
Steps(rec) == Collapse([n \in DOMAIN rec.sys |-> Abstract(rec.sys[n])])

FailV(cls, detail) == [v |-> "fail", cls |-> cls, detail |-> detail]
OkV == [v |-> "ok", cls |-> "", detail |-> ""]
Chk(cond, cls, detail, rest) == IF cond THEN rest ELSE FailV(cls, detail)
Judge(rec) ==
  LET W == World(rec)
      bad == { n \in DOMAIN rec.lookups :
                 LET e == rec.lookups[n]  want == R!Ref(W, e.d) IN
                 ~(/\ e.kind = want.kind
                   /\ (e.kind = "rate" => e.day = want.day /\ RClose(D(e.val), QuoteOf(rec, e.day), Eps))) }
  IN
  Chk(bad = {}, "corrupt",
      "after the crash (" \o rec.crash \o ") the look-up of day " \o ToString(rec.lookups[IF bad = {} THEN 1 ELSE CHOOSE n \in bad : TRUE].d)
        \o " did not return the published rate the rule demands",
  Chk(Steps(rec) = CW!StepsOf("tmp-sync-rename"), "proc",
      "the cache is written by the steps " \o ToString(Steps(rec)) \o ", not by write-to-temporary, sync, rename",
  OkV))

Init == l = 1 /\ tally = [ok |-> 0, fail |-> 0, ambig |-> 0, skip |-> 0, steps |-> 0]
Next ==
  /\ l <= Len(Recs)
  /\ LET r == Judge(Recs[l]) IN
     /\ tally' = [tally EXCEPT ![r.v] = @ + 1, !.steps = @ + Len(Recs[l].lookups)]
     /\ (r.v = "fail" => PrintT("@@FAIL " \o ToJson([id |-> Recs[l].id, sec |-> "*", line |-> l, cls |-> r.cls, detail |-> r.detail])))
  /\ l' = l + 1
Spec == Init /\ [][Next]_vars
Done == l = Len(Recs) + 1
Summary == Done => PrintT("@@SUMMARY " \o ToJson(tally))
Accepted == TLCGet("stats").diameter >= Len(Recs) + 1
=============================================================================
