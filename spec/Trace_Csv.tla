------------------------------ MODULE Trace_Csv ------------------------------
(***************************************************************************)
(* Property C11 on the real writer and parser.  One trace line per list of *)
(* transactions: the list as built ("orig"), the list obtained by writing  *)
(* it with write_txs_to_csv and reading the text back with parse_tx_csv +  *)
(* Tx::try_from ("back"), and whether writing "back" again gave the same   *)
(* bytes.  The relation demanded is CsvFormat's round-trip law, field by   *)
(* field on the concrete values: exact decimal values (numeric equality),  *)
(* currencies and rates, affiliate, superficial-loss marker with its force *)
(* flag, split ratio with its whole-number flag, memo up to surrounding    *)
(* whitespace; a default-affiliate split may come back as a split for all  *)
(* affiliates when the file names no other affiliate.                      *)
(***************************************************************************)
EXTENDS Rat, Sequences, FiniteSets, Json, IOUtils, TLC
Recs == ndJsonDeserialize(IOEnv.TRACE)
VARIABLES l, tally
vars == <<l, tally>>
D(x) == RDec(x.m, x.e)
FailV(cls, detail) == [v |-> "fail", cls |-> cls, detail |-> detail]
OkV == [v |-> "ok", cls |-> "", detail |-> ""]
Chk(cond, cls, detail, rest) == IF cond THEN rest ELSE FailV(cls, detail)

NamesOther(txs) == \E n \in DOMAIN txs : txs[n].af \notin {"default", "__global__"}
SameTx(t, u, txs) ==
  /\ t.sec = u.sec /\ t.td = u.td /\ t.sd = u.sd /\ t.act = u.act
  /\ REq(D(t.q), D(u.q)) /\ REq(D(t.p), D(u.p)) /\ REq(D(t.c), D(u.c))
  /\ t.cur = u.cur /\ REq(D(t.r), D(u.r)) /\ t.ccur = u.ccur /\ REq(D(t.rc), D(u.rc))
  /\ t.hasSfl = u.hasSfl /\ REq(D(t.sfl), D(u.sfl)) /\ t.force = u.force
  /\ t.ratio = u.ratio /\ t.memo = u.memo /\ t.memoLen = u.memoLen
  /\ \/ t.af = u.af
     \/ t.act = "Split" /\ t.af = "default" /\ u.af = "__global__" /\ ~NamesOther(txs)
Field(t, u) ==   \* name of a differing field, for the report
  IF t.act # u.act THEN "action" ELSE IF t.af # u.af THEN "affiliate" ELSE IF ~REq(D(t.q), D(u.q)) THEN "shares"
  ELSE IF ~REq(D(t.p), D(u.p)) THEN "amount/share" ELSE IF ~REq(D(t.c), D(u.c)) THEN "commission"
  ELSE IF t.cur # u.cur \/ ~REq(D(t.r), D(u.r)) THEN "currency / exchange rate"
  ELSE IF t.ccur # u.ccur \/ ~REq(D(t.rc), D(u.rc)) THEN "commission currency / rate"
  ELSE IF t.hasSfl # u.hasSfl \/ ~REq(D(t.sfl), D(u.sfl)) \/ t.force # u.force THEN "superficial loss / force flag"
  ELSE IF t.ratio # u.ratio THEN "split ratio (post|pre|whole-number flag)" ELSE IF t.memo # u.memo \/ t.memoLen # u.memoLen THEN "memo"
  ELSE "security or dates"
Judge(r) ==
  IF r.status = "skipped" THEN [v |-> "skip", cls |-> "", detail |-> ""]
  ELSE
  Chk(r.status = "ok", IF r.status = "panic" THEN "panic" ELSE "roundtrip", "writing / re-reading failed: " \o r.msg,
  Chk(Len(r.orig) = Len(r.back), "roundtrip", "a different number of transactions was read back",
  LET bad == { n \in DOMAIN r.orig : ~SameTx(r.orig[n], r.back[n], r.orig) } IN
  Chk(bad = {}, "roundtrip",
      LET n == IF bad = {} THEN 1 ELSE CHOOSE n \in bad : TRUE
      IN "transaction " \o ToString(n) \o " (" \o r.orig[n].act \o ") comes back with a different " \o Field(r.orig[n], r.back[n]),
  \* (a memo comes back without its surrounding whitespace, so the second text can only equal the first
  \* when no memo had any)
  Chk(r.sameBytes \/ \E n \in DOMAIN r.orig : r.orig[n].memoPadded, "roundtrip", "writing the re-read list again gives other bytes",
  OkV))))
Init == l = 1 /\ tally = [ok |-> 0, fail |-> 0, ambig |-> 0, skip |-> 0, steps |-> 0]
Next ==
  /\ l <= Len(Recs)
  /\ LET r == Judge(Recs[l]) IN
     /\ tally' = [tally EXCEPT ![r.v] = @ + 1, !.steps = @ + Len(Recs[l].orig)]
     /\ (r.v = "fail" => PrintT("@@FAIL " \o ToJson([id |-> Recs[l].id, sec |-> "*", line |-> l, cls |-> r.cls, detail |-> r.detail])))
  /\ l' = l + 1
Spec == Init /\ [][Next]_vars
Done == l = Len(Recs) + 1
Summary == Done => PrintT("@@SUMMARY " \o ToJson(tally))
Accepted == TLCGet("stats").diameter >= Len(Recs) + 1
=============================================================================
