--------------------------- MODULE MC_Rates_tiny ---------------------------
EXTENDS MC_Rates
\* every publication calendar over the model's days
CalendarsV == SUBSET Days
CalendarsSome == { {0, 1, 2, 4, 5, 7}, {1, 2, 3, 6}, {0, 3, 4, 7}, {2, 5}, Days, {} , {0, 1, 4, 5, 6}, {3, 4} }
=============================================================================
