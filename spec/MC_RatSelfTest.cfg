INIT Init
NEXT Next
