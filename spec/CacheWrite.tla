----------------------------- MODULE CacheWrite -----------------------------
(***************************************************************************)
(* Writing a year of exchange rates to the cache directory, step by step,  *)
(* over a small file-system model with crashes (property C14).             *)
(*                                                                         *)
(* A year's content is a sequence of rows; a row is written as a sequence  *)
(* of byte classes  "d" (date digits) "," (separator) "r" (a rate digit)   *)
(* "n" (end of row).  A file is [vol, dur]: the bytes the kernel has       *)
(* accepted (what survives a process kill) and a prefix of them that is    *)
(* durable (what certainly survives a power loss).  names maps file names  *)
(* to files; a rename may be durable or not.                               *)
(*                                                                         *)
(* WriteProc selects the procedure:                                        *)
(*   "inplace"          create(final, truncate); write...; close           *)
(*   "tmp-rename"       create(tmp); write...; close; rename(tmp, final)   *)
(*   "tmp-sync-rename"  create(tmp); write...; fsync(tmp); close; rename   *)
(* Crash kinds: "kill" (process dies: every file keeps vol), "power"       *)
(* (every file keeps some prefix between dur and vol; a rename that was    *)
(* not preceded by an fsync of its source may survive while the source's   *)
(* data does not).                                                         *)
(*                                                                         *)
(* NoCorruptRate: after any crash, what a later run parses from the final  *)
(* file is a set of rows each of which is a row of the OLD or of the NEW   *)
(* content - never a row with a rate that was not published (a torn rate). *)
(***************************************************************************)
EXTENDS Integers, Sequences, FiniteSets, TLC

CONSTANTS WriteProc,     \* "inplace" | "tmp-rename" | "tmp-sync-rename"
          CrashKinds,    \* subset of {"kill", "power"}
          NRowsOld, NRowsNew,   \* rows in the previous file (0 = no file) and in the new content
          RateLen        \* digits per rate (>= 2, so that a rate can be torn)

\* a row with identity <<gen, n>> (gen "old"/"new") is written as: d , r^RateLen n
RowBytes(gen, n) == <<[k |-> "d", row |-> <<gen, n>>], [k |-> ","]>> \o
                    [i \in 1..RateLen |-> [k |-> "r", row |-> <<gen, n>>, i |-> i]] \o <<[k |-> "n"]>>
RECURSIVE Content(_, _)
Content(gen, n) == IF n = 0 THEN <<>> ELSE Content(gen, n - 1) \o RowBytes(gen, n)

\* what the reader (get_rates_from_csv) makes of a byte sequence: complete rows are read; an
\* incomplete last row is read as a row if it has a date, a separator and at least one rate digit
\* (then its rate is the digits present - torn if fewer than RateLen), otherwise it is skipped
RECURSIVE Parse(_)
Parse(bytes) ==
  IF bytes = <<>> THEN {}
  ELSE IF Len(bytes) >= RateLen + 3 /\ bytes[RateLen + 3].k = "n"
       THEN { [row |-> bytes[1].row, digits |-> RateLen] } \cup Parse(SubSeq(bytes, RateLen + 4, Len(bytes)))
       ELSE \* a partial last row
            LET nd == Cardinality({ i \in DOMAIN bytes : bytes[i].k = "r" })
            IN  IF nd >= 1 THEN { [row |-> bytes[1].row, digits |-> nd] } ELSE {}
Torn(rows) == \E x \in rows : x.digits < RateLen

VARIABLES names,   \* file name -> [vol, dur] or absent ("final", "tmp")
          pc,      \* program counter of the writer
          pos,     \* bytes of the new content handed to write() so far
          synced,  \* the data of the file being written was fsync'ed
          crashed  \* "" or the crash kind
vars == <<names, pc, pos, synced, crashed>>

New == Content("new", NRowsNew)
Old == Content("old", NRowsOld)
Target == IF WriteProc = "inplace" THEN "final" ELSE "tmp"
File(v, d) == [vol |-> v, dur |-> d]
Has(n) == n \in DOMAIN names

Init ==
  /\ names = IF NRowsOld = 0 THEN [x \in {} |-> 0] ELSE [x \in {"final"} |-> File(Old, Old)]
  /\ pc = "create" /\ pos = 0 /\ synced = FALSE /\ crashed = ""

Create ==
  /\ pc = "create" /\ crashed = ""
  /\ names' = [x \in DOMAIN names \cup {Target} |-> IF x = Target THEN File(<<>>, <<>>) ELSE names[x]]
  /\ pc' = "write" /\ UNCHANGED <<pos, synced, crashed>>
\* one write() call accepts any non-empty chunk of the remaining bytes (buffering is up to the library)
WriteChunk ==
  /\ pc = "write" /\ crashed = "" /\ pos < Len(New)
  /\ \E n \in (pos + 1)..Len(New) :
        /\ names' = [names EXCEPT ![Target] = File(SubSeq(New, 1, n), @.dur)]
        /\ pos' = n
  /\ UNCHANGED <<pc, synced, crashed>>
EndWrite ==
  /\ pc = "write" /\ crashed = "" /\ pos = Len(New)
  /\ pc' = IF WriteProc = "tmp-sync-rename" THEN "sync" ELSE "close"
  /\ UNCHANGED <<names, pos, synced, crashed>>
Sync ==
  /\ pc = "sync" /\ crashed = ""
  /\ names' = [names EXCEPT ![Target] = File(@.vol, @.vol)]
  /\ synced' = TRUE /\ pc' = "close" /\ UNCHANGED <<pos, crashed>>
Close ==
  /\ pc = "close" /\ crashed = ""
  /\ pc' = IF WriteProc = "inplace" THEN "done" ELSE "rename"
  /\ UNCHANGED <<names, pos, synced, crashed>>
Rename ==
  /\ pc = "rename" /\ crashed = ""
  /\ names' = [x \in (DOMAIN names \ {"tmp"}) \cup {"final"} |-> IF x = "final" THEN names["tmp"] ELSE names[x]]
  /\ pc' = "done" /\ UNCHANGED <<pos, synced, crashed>>

\* crash: possible at every step boundary (and, through WriteChunk's arbitrary chunks, at every byte)
Prefixes(f) == { SubSeq(f.vol, 1, n) : n \in Len(f.dur)..Len(f.vol) }
CrashKill ==
  /\ crashed = "" /\ pc # "done" /\ "kill" \in CrashKinds
  /\ crashed' = "kill" /\ UNCHANGED <<names, pc, pos, synced>>
CrashPower ==
  /\ crashed = "" /\ "power" \in CrashKinds
  /\ crashed' = "power"
  /\ \E surv \in [DOMAIN names -> UNION { Prefixes(names[x]) : x \in DOMAIN names }] :
        /\ \A x \in DOMAIN names : surv[x] \in Prefixes(names[x])
        /\ names' = [x \in DOMAIN names |-> File(surv[x], surv[x])]
  /\ UNCHANGED <<pc, pos, synced>>
Next == Create \/ WriteChunk \/ EndWrite \/ Sync \/ Close \/ Rename \/ CrashKill \/ CrashPower
Spec == Init /\ [][Next]_vars

\* what a later run reads from the cache
Read == IF Has("final") THEN Parse(names["final"].vol) ELSE {}
NoCorruptRate == ~Torn(Read)
\* and what it reads is all old rows or all new rows (it never mixes generations)
OneGeneration == \A x, y \in Read : x.row[1] = y.row[1]
\* the step sequence as observed through system calls, for trace validation
StepsOf(proc) ==
  CASE proc = "inplace" -> <<"create:final", "write:final", "close:final">>
    [] proc = "tmp-rename" -> <<"create:tmp", "write:tmp", "close:tmp", "rename:tmp:final">>
    [] proc = "tmp-sync-rename" -> <<"create:tmp", "write:tmp", "fsync:tmp", "close:tmp", "rename:tmp:final">>
=============================================================================
