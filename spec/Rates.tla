-------------------------------- MODULE Rates --------------------------------
(***************************************************************************)
(* The USD/CAD exchange-rate loader and its cache (properties C12, C13).   *)
(*                                                                         *)
(* World W = [pub, today, todayPub, force, wr]:                                *)
(*   pub       day -> rate published by the Bank of Canada for that day,   *)
(*             NoRate where none was (weekends, holidays, the future);     *)
(*   today     the date of the run; todayPub: today's rate is already out; *)
(*   force     downloads are forced for this run;                          *)
(*   wr        the cache can be written (FALSE: every write fails, e.g. an *)
(*             unwritable directory - the run goes on without caching).    *)
(* Loader state C = [disk, hasDisk, mem, loaded, fresh, dl]:                                *)
(*   disk[y]   the cached year (day -> rate, NoRate written as the zero    *)
(*             placeholder), for the years in hasDisk; survives runs;      *)
(*   mem[y]    the year as loaded by this run, for the years in loaded;    *)
(*   fresh     years downloaded by this run;  dl[y] downloads in this run. *)
(*                                                                         *)
(* Ref(W, d) is the answer the rules demand, with no cache in sight.       *)
(* Lookup(W, C, d) transcribes what the loader does (rate_loader.rs), one  *)
(* operator per step of the code: LoadYear, Download, Exact, look-back.    *)
(* The properties relate the two.                                          *)
(***************************************************************************)
EXTENDS Integers, Sequences, FiniteSets, TLC

CONSTANTS YearOfDay(_),     \* calendar: day number -> year
          FirstDay(_),      \* year -> its first day number
          LastDay(_),       \* year -> its last day number
          Lookback,         \* 7
          Revalidate        \* TRUE: a past date missing from a year loaded from the cache makes the
                            \* loader download the year (once per run) - the repaired behaviour
NoRate == 0                 \* also the placeholder written to the cache

Avail(W) == { d \in DOMAIN W.pub : W.pub[d] # NoRate /\ (d < W.today \/ (d = W.today /\ W.todayPub)) }

(***************************************************************************)
(* The rule (C12): the rate published for the date, else the most recent   *)
(* one published within the preceding Lookback days; never a later day's,  *)
(* never a placeholder; an error when there is none, and for a date that   *)
(* is today or later and has no rate yet.                                  *)
(***************************************************************************)
Err == [kind |-> "err", day |-> 0, val |-> 0]
Rate(d, v) == [kind |-> "rate", day |-> d, val |-> v]
Ref(W, d) ==
  IF d >= W.today /\ d \notin Avail(W) THEN Err
  ELSE LET c == { e \in Avail(W) : d - Lookback <= e /\ e <= d }
       IN  IF c = {} THEN Err
           ELSE LET m == CHOOSE e \in c : \A x \in c : x <= e IN Rate(m, W.pub[m])

(***************************************************************************)
(* What a download of year y yields at this moment: every day of the year  *)
(* from Jan 1 to the later of (the last day with an available rate) and    *)
(* (yesterday, if the year has begun), with the placeholder where no rate  *)
(* is available.                                                           *)
(***************************************************************************)
MaxOf(T) == CHOOSE x \in T : \A y \in T : y <= x
Fill(W, y) ==
  LET av   == { d \in Avail(W) : YearOfDay(d) = y }
      upto == { W.today - 1 } \cap (FirstDay(y)..LastDay(y))
      capT == IF W.today - 1 > LastDay(y) THEN { LastDay(y) } ELSE upto
      ends == av \cup capT
  IN  IF ends = {} THEN [d \in {} |-> NoRate]
      ELSE [d \in FirstDay(y)..MaxOf(ends) |-> IF d \in av THEN W.pub[d] ELSE NoRate]

(***************************************************************************)
(* The loader, as coded.  Every operator returns the new loader state      *)
(* (and a result where there is one).                                      *)
(***************************************************************************)
Download(W, C, y) ==
  LET f == Fill(W, y)
  IN  [C EXCEPT !.disk[y] = IF W.wr THEN f ELSE @, !.hasDisk = IF W.wr THEN @ \cup {y} ELSE @,
                !.mem[y] = f, !.loaded = @ \cup {y}, !.fresh = @ \cup {y}, !.dl[y] = @ + 1]

\* load year y because `target` is being looked up
LoadYear(W, C, y, target) ==
  IF ~W.force /\ y \in C.hasDisk /\ (y \in C.fresh \/ target \in DOMAIN C.disk[y])
  THEN [C EXCEPT !.mem[y] = C.disk[y], !.loaded = @ \cup {y}]          \* cache accepted
  ELSE Download(W, C, y)

\* exact look-up: [C, r] with r a Rate, Err, or "nothing" (try the previous day)
Nothing == [kind |-> "nothing", day |-> 0, val |-> 0]
Absent  == [kind |-> "absent", day |-> 0, val |-> 0]
InMem(C, y, d) ==
  IF d \in DOMAIN C.mem[y]
  THEN IF C.mem[y][d] = NoRate THEN Nothing ELSE Rate(d, C.mem[y][d])
  ELSE Absent
Exact(W, C0, d) ==
  LET y == YearOfDay(d)
      C == IF y \notin C0.loaded THEN LoadYear(W, C0, y, d) ELSE C0
      r == InMem(C, y, d)
  IN  IF r # Absent THEN [C |-> C, r |-> r]
      ELSE \* no entry for d in the loaded year
           IF Revalidate /\ y \notin C.fresh
           THEN \* the year came from the cache, which may predate d: refresh it (once per run)
                LET C2 == Download(W, C, y)
                    r2 == InMem(C2, y, d)
                IN  [C |-> C2, r |-> IF r2 # Absent THEN r2 ELSE IF d >= W.today THEN Err ELSE Nothing]
           ELSE [C |-> C, r |-> IF d >= W.today THEN Err ELSE Nothing]

RECURSIVE LookBack(_, _, _, _)
LookBack(W, C, d, k) ==
  IF k > Lookback THEN [C |-> C, r |-> Err]
  ELSE LET e == Exact(W, C, d - k)
       IN  IF e.r.kind = "rate" THEN e
           ELSE IF e.r.kind = "err" THEN e
           ELSE LookBack(W, e.C, d, k + 1)

Lookup(W, C, d) ==
  LET e == Exact(W, C, d)
  IN  IF e.r.kind = "nothing" THEN LookBack(W, e.C, d, 1) ELSE e

\* a new run (process): nothing is loaded, nothing is fresh
NoYear == [d \in {} |-> NoRate]
NewRun(C) == [C EXCEPT !.mem = [y \in DOMAIN C.mem |-> NoYear], !.loaded = {}, !.fresh = {}, !.dl = [y \in DOMAIN C.dl |-> 0]]
EmptyLoader(Years) == [disk |-> [y \in Years |-> NoYear], hasDisk |-> {}, mem |-> [y \in Years |-> NoYear], loaded |-> {},
                       fresh |-> {}, dl |-> [y \in Years |-> 0]]

\* days a look-up of d may probe
Probed(d) == (d - Lookback)..d
=============================================================================
