------------------------- MODULE MC_Ledger_conserve -------------------------
(* Alphabet for conservation of money (C03): only non-registered affiliates, no manual      *)
(* superficial-loss entries; several affiliates buying inside the window of a loss sale and  *)
(* ending the window with different holdings; a return of capital.                            *)
EXTENDS MCLedger
q1 == <<1, 0>>  q2 == <<2, 0>>  q3 == <<3, 0>>
TemplatesV ==
  { TBuy(a, q, <<10, 0>>, <<1, 0>>) : a \in {"", "Spouse", "Kid"}, q \in {q1, q3} } \cup
  { TSell(a, q, <<6, 0>>, Z) : a \in {"", "Spouse", "Kid"}, q \in {q1, q2} } \cup
  { TSell("", q1, <<15, 0>>, <<1, 0>>), TRoc("", <<1, 0>>), TSplit("*", "2-for-1", <<2, 0>>, One, FALSE) }
GapsV == {0, 1, 30, 31}
SplitRatiosV == {<<2, 1>>, <<1, 2>>, <<3, 2>>, <<1, 3>>}
OpeningsV == {<<>>, <<<<1, 0>>, <<10, 0>>>>}   \* (with an opening share: sold at a loss, split, bought back - three rows)
=============================================================================
