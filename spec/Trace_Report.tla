---------------------------- MODULE Trace_Report ----------------------------
(***************************************************************************)
(* Validation of acb's reports (render model, text and CSV writers)        *)
(* against the reporting rules: properties C06 (totals, display rounding), *)
(* C17 (total-cost tables) and the output-mode half of C04 (a rejection is *)
(* visible in every mode and the security is left out of every total).     *)
(*                                                                         *)
(* One trace line per run of acb over one input: every dollar figure of    *)
(* every table, parsed by the harness, in full precision ("full", as with  *)
(* --print-full-values) and as displayed by default ("rounded"), plus the  *)
(* ledger segments (logged deltas) of the same input.                      *)
(*                                                                         *)
(* Failure classes -> property:                                            *)
(*   totals, rounding, fullvalues  C06                                     *)
(*   costs                         C17                                     *)
(*   visible, aggexcl, shape       C04                                     *)
(***************************************************************************)
EXTENDS Costs, Sequences, Json, IOUtils, TLC

Recs == ndJsonDeserialize(IOEnv.TRACE)
VARIABLES l, tally
vars == <<l, tally>>

Eps  == Eps9
D(x) == RDec(x.m, x.e)
V(o) == D(o.v)                      \* value of an optional figure [has, v]

FailV(cls, detail) == [v |-> "fail", cls |-> cls, detail |-> detail]
OkV == [v |-> "ok", cls |-> "", detail |-> ""]
Chk(cond, cls, detail, rest) == IF cond THEN rest ELSE FailV(cls, detail)
RSumSet(T, f(_)) ==
  LET RECURSIVE go(_)
      go(U) == IF U = {} THEN RZero ELSE LET x == CHOOSE x \in U : TRUE IN RAdd(f(x), go(U \ {x}))
  IN go(T)
\* first element of a finite set of naturals for which pred fails; 0 if none
FirstBadIn(T, pred(_)) == LET bad == { k \in T : ~pred(k) } IN IF bad = {} THEN 0 ELSE CHOOSE k \in bad : \A j \in bad : k <= j

(***************************************************************************)
(* C06: totals                                                             *)
(***************************************************************************)
Clean(t)         == t.errors = <<>>
GainRows(t)      == { n \in DOMAIN t.rows : t.rows[n].gain.has }
YearsOfTable(t)  == { YearOf(t.rows[n].sd) : n \in GainRows(t) }
YearSum(t, y)    == RSumSet({ n \in GainRows(t) : YearOf(t.rows[n].sd) = y }, LAMBDA n : V(t.rows[n].gain))
FooterYears(f)   == { f.years[n][1] : n \in DOMAIN f.years }          \* f has fields years, total
FooterVal(f, y)  == V(f.years[CHOOSE n \in DOMAIN f.years : f.years[n][1] = y][2])

TableTotalsOK(t) ==
  /\ FooterYears(t) = YearsOfTable(t)
  /\ Cardinality(FooterYears(t)) = Len(t.years)
  /\ \A y \in FooterYears(t) : RClose(FooterVal(t, y), YearSum(t, y), Eps)
  /\ t.total.has /\ RClose(V(t.total), RSumSet(FooterYears(t), LAMBDA y : FooterVal(t, y)), Eps)

AggOK(m) ==
  LET clean == { n \in DOMAIN m.secs : Clean(m.secs[n]) }
      ys == UNION { FooterYears(m.secs[n]) : n \in clean }
  IN  /\ FooterYears(m.agg) = ys /\ Cardinality(ys) = Len(m.agg.years)
      /\ \A y \in ys : RClose(FooterVal(m.agg, y),
                              RSumSet({ n \in clean : y \in FooterYears(m.secs[n]) }, LAMBDA n : FooterVal(m.secs[n], y)), Eps)
      /\ m.agg.total.has /\ RClose(V(m.agg.total), RSumSet(ys, LAMBDA y : FooterVal(m.agg, y)), Eps)

(***************************************************************************)
(* C06: every displayed dollar figure is the full-precision figure rounded *)
(* half away from zero to cents                                            *)
(***************************************************************************)
\* first row of the run of consecutive Split rows (same settlement day) that row n belongs to
RECURSIVE LeadRow(_, _)
LeadRow(rows, n) == IF n > 1 /\ rows[n].act = "Split" /\ rows[n - 1].act = "Split" /\ rows[n - 1].sd = rows[n].sd
                    THEN LeadRow(rows, n - 1) ELSE n
\* a rejected run may stop inside the copies of a split for all affiliates (any order): the copies
\* shown at that point are not compared
RECURSIVE DropTrailingSplits(_)
DropTrailingSplits(ds) == IF ds # <<>> /\ ds[Len(ds)].act = "Split" THEN DropTrailingSplits(SubSeq(ds, 1, Len(ds) - 1)) ELSE ds
Rounded(f, r) == f.has = r.has /\ (f.has => REq(V(r), RRoundCents(V(f))))
RowRounded(f, r) ==
  /\ Rounded(f.amount, r.amount) /\ Rounded(f.acbOfSale, r.acbOfSale) /\ Rounded(f.comm, r.comm)
  /\ Rounded(f.gain, r.gain) /\ Rounded(f.sfl, r.sfl) /\ Rounded(f.acbDelta, r.acbDelta)
  /\ Rounded(f.newAcb, r.newAcb) /\ Rounded(f.acbPerShare, r.acbPerShare)
YearsRounded(f, r) ==
  /\ Len(f.years) = Len(r.years)
  /\ \A n \in DOMAIN f.years : f.years[n][1] = r.years[n][1] /\ Rounded(f.years[n][2], r.years[n][2])
  /\ Rounded(f.total, r.total)
\* rounding never feeds back: the yearly figure shown with default options is the EXACT sum of the year's
\* full-precision capital gains, rounded once (either neighbour when that sum is within 1e-20 of a half cent)
ShownOf(x, shown) == REq(shown, RRoundCents(x)) \/ RClose(RAbs(RSub(shown, x)), RDec(5, 3), RDec(1, 20))
YearsShownOK(f, r) ==
  \A n \in DOMAIN r.years : r.years[n][1] \in FooterYears(f) /\ ShownOf(YearSum(f, r.years[n][1]), V(r.years[n][2]))
\* (rows of the two renderings are matched like TableIsLedger matches rows and deltas)
TableRounded(f, r) ==
  LET fr == IF Clean(f) THEN f.rows ELSE DropTrailingSplits(f.rows)
      rr == IF Clean(f) THEN r.rows ELSE DropTrailingSplits(r.rows)
  IN
  /\ f.sec = r.sec /\ Len(fr) = Len(rr)
  /\ \A n \in DOMAIN fr :
        IF fr[n].act # "Split" THEN RowRounded(fr[n], rr[n])
        ELSE \E m \in { m \in DOMAIN rr : LeadRow(fr, m) = LeadRow(fr, n) } :
                fr[n].af = rr[m].af /\ RowRounded(fr[n], rr[m])
  /\ YearsRounded(f, r)
CostsRounded(f, r) ==
  /\ f.secs = r.secs /\ Len(f.rows) = Len(r.rows)
  /\ \A n \in DOMAIN f.rows : /\ f.rows[n].year = r.rows[n].year /\ Rounded(f.rows[n].total, r.rows[n].total)
                              /\ Len(f.rows[n].vals) = Len(r.rows[n].vals)
                              \* (which of several equally maximal days a yearly row shows is C09's business)
                              /\ f.rows[n].day = r.rows[n].day =>
                                    \A k \in DOMAIN f.rows[n].vals : Rounded(f.rows[n].vals[k], r.rows[n].vals[k])
                              /\ f.rows[n].year = 0 => f.rows[n].day = r.rows[n].day

(***************************************************************************)
(* C06: the full-precision table shows the ledger's own figures (nothing   *)
(* rounded was fed back into a computation)                                *)
(***************************************************************************)
SegOf(rec, sec) == rec.segments[CHOOSE n \in DOMAIN rec.segments : rec.segments[n].sec = sec]
RowIsDelta(row, d) ==
  /\ row.sd = d.sd /\ row.act = d.act
  /\ row.gain.has = (d.act = "Sell" /\ d.hasGain) /\ (row.gain.has => REq(V(row.gain), D(d.gain)))
  /\ row.newAcb.has = d.hasAcb /\ (d.hasAcb => REq(V(row.newAcb), D(d.acb)))
  /\ (row.sfl.has => d.hasSfl /\ REq(V(row.sfl), D(d.sfl)))
  /\ (d.hasAcb /\ d.preHasAcb => row.acbDelta.has /\ RClose(V(row.acbDelta), RSub(D(d.acb), D(d.preAcb)), Eps))
\* The per-affiliate copies of one split for all affiliates may be processed in any order, and the
\* report and the ledger trace come from two runs: inside a run of consecutive Split rows settling
\* the same day a row only has to match SOME delta of that run for the same affiliate.
TableIsLedger(rec, t) ==
  LET ds == IF Clean(t) THEN SegOf(rec, t.sec).deltas ELSE DropTrailingSplits(SegOf(rec, t.sec).deltas)
      rows == IF Clean(t) THEN t.rows ELSE DropTrailingSplits(t.rows)
  IN  /\ Len(ds) = Len(rows)
      /\ \A n \in DOMAIN ds :
            IF rows[n].act # "Split" THEN rows[n].af = ds[n].af /\ RowIsDelta(rows[n], ds[n])
            ELSE \E m \in { m \in DOMAIN ds : LeadRow(rows, m) = LeadRow(rows, n) } :
                    rows[n].af = ds[m].af /\ RowIsDelta(rows[n], ds[m])

(***************************************************************************)
(* C17: total-cost tables                                                  *)
(***************************************************************************)
CostEvents(rec) ==
  UNION { { [sec |-> rec.segments[k].sec, sd |-> rec.segments[k].deltas[n].sd, n |-> n,
             pre |-> D(rec.segments[k].deltas[n].preAcb), post |-> D(rec.segments[k].deltas[n].acb)] :
            n \in { n \in DOMAIN rec.segments[k].deltas :
                      rec.segments[k].deltas[n].af = "default" /\ rec.segments[k].deltas[n].hasAcb } } :
          k \in DOMAIN rec.segments }
IgnoredCount(rec) ==
  LET RECURSIVE cnt(_)
      cnt(k) == IF k > Len(rec.segments) THEN 0
                ELSE Cardinality({ n \in DOMAIN rec.segments[k].deltas :
                                     ~(rec.segments[k].deltas[n].af = "default" /\ rec.segments[k].deltas[n].hasAcb) }) + cnt(k + 1)
  IN cnt(1)
SecIndex(c, s) == CHOOSE k \in DOMAIN c.secs : c.secs[k] = s
TotalTableOK(E, c) ==
  /\ { c.secs[k] : k \in DOMAIN c.secs } = CostSecs(E) /\ Len(c.secs) = Cardinality(CostSecs(E))
  /\ { c.rows[n].day : n \in DOMAIN c.rows } = CostDays(E) /\ Len(c.rows) = Cardinality(CostDays(E))
  /\ \A n \in DOMAIN c.rows : n > 1 => c.rows[n - 1].day < c.rows[n].day
  /\ \A n \in DOMAIN c.rows :
        /\ \A k \in DOMAIN c.secs : RClose(V(c.rows[n].vals[k]), CostVal(E, c.secs[k], c.rows[n].day), Eps)
        /\ RClose(V(c.rows[n].total), CostTotal(E, c.rows[n].day), Eps)
YearlyTableOK(E, c) ==
  /\ { c.rows[n].year : n \in DOMAIN c.rows } = CostYears(E) /\ Len(c.rows) = Cardinality(CostYears(E))
  /\ \A n \in DOMAIN c.rows :
        /\ c.rows[n].day \in DaysOfYear(E, c.rows[n].year)
        \* a day whose total is the highest of the year (any of several equal ones), within the band
        /\ \A x \in DaysOfYear(E, c.rows[n].year) : RLe(CostTotal(E, x), RAdd(CostTotal(E, c.rows[n].day), Eps))
        /\ RClose(V(c.rows[n].total), CostTotal(E, c.rows[n].day), Eps)
        /\ \A k \in DOMAIN c.secs : RClose(V(c.rows[n].vals[k]), CostVal(E, c.secs[k], c.rows[n].day), Eps)

(***************************************************************************)
(* one report                                                              *)
(***************************************************************************)
Judge(rec) ==
  IF rec.status = "skipped" THEN [v |-> "skip", cls |-> "", detail |-> ""]
  ELSE
  Chk(rec.status = "ok", IF rec.status = "panic" THEN "panic" ELSE "shape", "the run failed as a whole: " \o rec.msg,
  LET F == rec.full  R == rec.rounded
      allClean == \A n \in DOMAIN F.secs : Clean(F.secs[n])
  IN
  Chk(Len(F.secs) = Len(rec.segments) /\ \A n \in DOMAIN F.secs : \E k \in DOMAIN rec.segments : rec.segments[k].sec = F.secs[n].sec,
      "shape", "one table per security of the input",
  \* C04: a table carries an error exactly when bookkeeping rejected the security; visibility
  Chk(\A n \in DOMAIN F.secs : (SegOf(rec, F.secs[n].sec).status = "rejected") = ~Clean(F.secs[n]), "visible",
      "bookkeeping error and error shown in the table model disagree",
  Chk(~rec.writerPanic /\ \A n \in DOMAIN rec.visible : rec.visible[n].text, "visible", "rejection message missing from the text output",
  Chk(\A n \in DOMAIN rec.visible : rec.visible[n].csv, "visible", "rejection message missing from the CSV output",
  Chk(\A n \in DOMAIN rec.visible : rec.visible[n].dir, "visible", "rejection message missing from the files written with --csv-output-dir (and from the error stream)",
  \* C06 / C04: totals
  LET b1 == FirstBadIn(DOMAIN F.secs, LAMBDA n : ~Clean(F.secs[n]) \/ TableTotalsOK(F.secs[n])) IN
  Chk(b1 = 0, "totals", "yearly figures / total of a security do not add up: " \o F.secs[IF b1 = 0 THEN 1 ELSE b1].sec,
  Chk(\A n \in DOMAIN F.secs : Clean(F.secs[n]) \/ (F.secs[n].years = <<>> /\ RIsZero(V(F.secs[n].total))), "aggexcl",
      "a rejected security shows capital-gain totals",
  Chk(AggOK(F), IF allClean THEN "totals" ELSE "aggexcl", "aggregate gains are not the sums over the securities that completed without error",
  \* C06: the full-precision tables are the ledger's figures
  LET b2 == FirstBadIn(DOMAIN F.secs, LAMBDA n : TableIsLedger(rec, F.secs[n])) IN
  Chk(b2 = 0, "fullvalues", "full-precision table differs from the ledger figures: " \o F.secs[IF b2 = 0 THEN 1 ELSE b2].sec,
  \* C06: display rounding
  Chk(Len(F.secs) = Len(R.secs), "rounding", "tables differ between precision modes",
  LET b3 == FirstBadIn(DOMAIN F.secs, LAMBDA n : TableRounded(F.secs[n], R.secs[n])) IN
  Chk(b3 = 0, "rounding", "a displayed figure is not the full-precision figure rounded half away from zero: " \o F.secs[IF b3 = 0 THEN 1 ELSE b3].sec,
  Chk(YearsRounded(F.agg, R.agg), "rounding", "aggregate table: displayed figure is not the rounded full-precision figure",
  LET b4 == FirstBadIn(DOMAIN F.secs, LAMBDA n : ~Clean(F.secs[n]) \/ YearsShownOK(F.secs[n], R.secs[n])) IN
  Chk(b4 = 0, "rounding", "a displayed yearly figure is not the sum of that year's full-precision gains rounded to cents (an intermediate figure was rounded): " \o F.secs[IF b4 = 0 THEN 1 ELSE b4].sec,
  \* C17
  IF ~F.costs.has \/ ~allClean THEN OkV ELSE
  LET E == CostEvents(rec) IN
  Chk(CostsRounded(F.costs.total, R.costs.total) /\ CostsRounded(F.costs.yearly, R.costs.yearly), "rounding", "cost tables: displayed figure is not the rounded full-precision figure",
  Chk(TotalTableOK(E, F.costs.total), "costs", "total-costs table differs from the maximum cost held per day",
  Chk(YearlyTableOK(E, F.costs.yearly), "costs", "yearly max-costs table differs",
  Chk(Len(F.costs.total.notes) = IgnoredCount(rec), "costs", "ignored transactions of other affiliates are not all listed",
  OkV))))))))))))))))))

Init == l = 1 /\ tally = [ok |-> 0, fail |-> 0, ambig |-> 0, skip |-> 0, steps |-> 0]
Next ==
  /\ l <= Len(Recs)
  /\ LET r == Judge(Recs[l]) IN
     /\ tally' = [tally EXCEPT ![r.v] = @ + 1, !.steps = @ + 1]
     /\ (r.v = "fail" => PrintT("@@FAIL " \o ToJson([id |-> Recs[l].id, sec |-> "*", line |-> l, cls |-> r.cls, detail |-> r.detail])))
  /\ l' = l + 1
Spec == Init /\ [][Next]_vars
Done == l = Len(Recs) + 1
Summary == Done => PrintT("@@SUMMARY " \o ToJson(tally))
Accepted == TLCGet("stats").diameter >= Len(Recs) + 1
=============================================================================
