---------------------------- MODULE Trace_Ledger ----------------------------
(***************************************************************************)
(* Trace validation of the real bookkeeping code against module Ledger.    *)
(*                                                                         *)
(* The trace file (env TRACE, ndjson) holds one line per segment = one     *)
(* security of one run of acb: the input rows as the driver generated them *)
(* (not acb's parsed view), the opening position, and what acb reported:   *)
(* one logged delta per processed transaction (pre/post share balance,     *)
(* all-affiliate balance, cost base, capital gain, superficial-loss info)  *)
(* and how the security ended (ok / rejected with message / panic).        *)
(*                                                                         *)
(* The state machine consumes one logged delta per step and applies the    *)
(* specification's own action for that row (Ledger!Step), comparing every  *)
(* logged figure with the exact one.  It is written checker-style: a       *)
(* disagreement is recorded (printed as a FAIL line with a class naming    *)
(* the property concerned) and validation resumes with the next segment,   *)
(* so one rejected segment never hides the rest.  TLC additionally checks  *)
(* the Ledger invariants on every state of every validated trace.         *)
(*                                                                         *)
(* Failure classes -> property:                                            *)
(*   arith            C01  balances / cost base / gain arithmetic          *)
(*   sfl              C02  superficial decision, amount, ratio, manual SFL *)
(*   adjust, conserve C03  automatic adjustments, conservation identity    *)
(*   sflreject        C02+C04  a declared superficial loss accepted/refused *)
(*   reject, inv, chain, message, panic                                    *)
(*                    C04  accept/reject equivalence, invariants, prefix   *)
(*   order            C07  processing order / row identity                 *)
(*   splitexp         C15/C16  a split for all affiliates reaches everybody *)
(*                                                                         *)
(* Decisions (reject or not, loss or not) are judged strictly when the     *)
(* operands the code worked with equal the exact ones; when decimal        *)
(* rounding noise is present and the exact margin is within the 1e-9 band, *)
(* both outcomes are accepted (verdict "ambig": the segment is dropped     *)
(* from there on and counted, never reported).                             *)
(***************************************************************************)
EXTENDS Ledger, Tx, Json, IOUtils

Segs == ndJsonDeserialize(IOEnv.TRACE)

VARIABLES l,      \* index of the segment being validated
          m,      \* per-segment state (see Load)
          tally   \* [ok, fail, ambig, skip, steps]
vars == <<l, m, tally>>

Eps  == Eps9
Eps2 == RDec(2, 9)            \* derived figures (loss x ratio, plus the code's cent snapping below 1e-10)

D(x) == RDec(x.m, x.e)
ToRow(j) ==
  [act |-> j.act, af |-> j.af, sd |-> j.sd, td |-> j.td, idx |-> j.idx,
   q |-> D(j.q), p |-> D(j.p), c |-> D(j.c), r |-> D(j.r), rc |-> D(j.rc),
   hasSfl |-> j.hasSfl, sflv |-> D(j.sflv), force |-> j.force,
   post |-> D(j.post), pre |-> D(j.pre), intOnly |-> j.intOnly, grp |-> FALSE]

Seg == Segs[l]
AfsOf(seg) == { seg.afs[n][1] : n \in DOMAIN seg.afs }
RegOf(seg) == [a \in AfsOf(seg) |-> \E n \in DOMAIN seg.afs : seg.afs[n][1] = a /\ seg.afs[n][2]]

Idle == [k |-> 0]

\* a segment qualifies for the conservation identity (C03) when every affiliate is
\* non-registered and the user supplied no superficial-loss figures
Qualifies(seg) ==
  /\ \A n \in DOMAIN seg.afs : ~seg.afs[n][2]
  /\ \A n \in DOMAIN seg.rows : ~seg.rows[n].hasSfl /\ seg.rows[n].act # "Sfla"

Load ==
  LET seg == Seg
      AFS == AfsOf(seg)
      rows == [n \in DOMAIN seg.rows |-> ToRow(seg.rows[n])]
      S0 == IF seg.opening.has THEN OpenState(AFS, DefaultAf, D(seg.opening.n), D(seg.opening.c))
            ELSE InitState(AFS)
      A0 == [ZeroAcc EXCEPT !.costs = IF seg.opening.has THEN D(seg.opening.c) ELSE RZero]
  IN  [k |-> 1, i |-> 1, R |-> Prepare(rows, seg.opening.has), REG |-> RegOf(seg),
       S |-> S0, L |-> S0, pend |-> {}, weak |-> FALSE, A |-> A0, AL |-> A0, fS |-> FALSE, fL |-> FALSE,
       qual |-> Qualifies(seg)]

(***************************************************************************)
(* verdicts                                                                *)
(***************************************************************************)
Ok(m2)            == [v |-> "ok", m |-> m2, cls |-> "", detail |-> ""]
FailV(cls, detail) == [v |-> "fail", m |-> Idle, cls |-> cls, detail |-> detail]
Ambig(detail)     == [v |-> "ambig", m |-> Idle, cls |-> "ambig", detail |-> detail]
\* rest is evaluated only when cond holds (TLC passes operator arguments lazily)
Chk(cond, cls, detail, rest) == IF cond THEN rest ELSE FailV(cls, detail)

PerShareExact(S, a) == RIsZero(S.sh[a]) \/ RIsDecimal(RDiv(S.acb[a], S.sh[a]), 20)
AllAdjDecimal(R, i) == \A j \in After(R, i) : (IsBuy(R, j) \/ IsSell(R, j)) => RIsDecimal(AdjShares(R, i, j), 20)
\* smallest running share count reached by a sale inside the window after row i
ForwardMargin(R, i, P) ==
  LET T == { j \in After(R, i) : IsSell(R, j) }
      RECURSIVE mn(_)
      mn(U) == IF U = {} THEN ROne
               ELSE LET x == CHOOSE x \in U : TRUE IN RMin(RunAff(R, i, P, R[x].af, x), mn(U \ {x}))
  IN mn(T)

\* who "still holds shares" at the end of the superficial-loss period of sale i is decided by a residue of
\* the order of 1e-27 shares (left or removed by decimal rounding of an earlier or later row)
ResidueSensitive(R, i, P) ==
  \E a \in DOMAIN P.sh : ~RIsZero(Eop(R, i, P, a)) /\ RLe(RAbs(Eop(R, i, P, a)), Eps)

\* Could decimal rounding noise alone explain acb deciding row i the other way round?
Borderline(mm, i) ==
  LET R == mm.R  S == mm.S  L == mm.L  REG == mm.REG
      t == R[i]  a == t.af
      c == Core(S, REG, t)
  IN  CASE t.act = "Roc" ->
             /\ ~REq(L.acb[a], S.acb[a])
             /\ RClose(RMul(RMul(t.p, S.sh[a]), t.r), S.acb[a], Eps)
        [] t.act = "Split" -> ~REq(L.sh[a], S.sh[a])
        [] t.act = "Sell" ->
             \/ ~REq(L.sh[a], S.sh[a]) /\ RClose(t.q, S.sh[a], Eps)
             \/ /\ c.ok /\ c.hasGain
                /\ \/ RLe(RAbs(c.raw), Eps) /\ ~(PerShareExact(S, a) /\ REq(L.acb[a], S.acb[a]))
                   \/ /\ RNegative(c.raw) /\ t.hasSfl /\ ~t.force /\ ~ForwardBad(R, i, c.S)
                      /\ RClose(RAbs(RSub(ComputedSfl(R, i, c.S, c.raw), t.sflv)), MaxSflDiff, Eps2)
                   \/ /\ RNegative(c.raw) /\ ~AllAdjDecimal(R, i)
                      /\ RLe(RAbs(ForwardMargin(R, i, c.S)), Eps)
                   \/ RNegative(c.raw) /\ ResidueSensitive(R, i, c.S)
        [] OTHER -> FALSE

(***************************************************************************)
(* one logged delta                                                        *)
(***************************************************************************)
LogInto(L, d) == [L EXCEPT !.sh[d.af] = D(d.sh), !.acb[d.af] = D(d.acb), !.all = D(d.all)]

ChainOK(mm, d) ==
  /\ REq(D(d.preSh), mm.L.sh[d.af]) /\ REq(D(d.preAll), mm.L.all)
  /\ (d.preHasAcb => REq(D(d.preAcb), mm.L.acb[d.af]))
LoggedOK(mm, d) ==
  /\ ~RNegative(D(d.sh)) /\ ~RNegative(D(d.all)) /\ ~RNegative(D(d.acb))
  /\ d.hasAcb = ~mm.REG[d.af] /\ d.preHasAcb = ~mm.REG[d.af]
  /\ (mm.REG[d.af] => ~d.hasGain /\ ~d.hasSfl)

\* logged conservation identity (C03), on the figures the report showed
ConserveOK(mm2) ==
  (mm2.qual /\ ~mm2.fL /\ mm2.pend = {}) => ConservedEps(mm2.AL, mm2.L, RMul(Eps, RN(mm2.k + 2)))
\* all-affiliate balance equals the sum of the affiliates' latest balances (C04)
SumOK(mm2) == RClose(mm2.L.all, RSumOver(DOMAIN mm2.L.sh, LAMBDA a : mm2.L.sh[a]), Eps)

Finish(mm2) ==
  Chk(SumOK(mm2), "inv", "all-affiliate balance differs from the sum of affiliate balances",
  Chk(ConserveOK(mm2), "conserve", "gains so far differ from proceeds - costs + roc + cost base held",
  Ok(mm2)))

\* A residue of 1e-27 shares left (or removed) by decimal rounding decides qualitative questions - who still
\* holds shares at the end of a superficial-loss period, whether a return of capital has anything to act on.
\* Where acb reports that an affiliate holds nothing and the exact balance is within the band of nothing (or
\* the other way round), the model continues from the reported balance.
Snap(S, d) ==
  LET a == d.af  x == D(d.sh) IN
  IF ~REq(x, S.sh[a]) /\ (RIsZero(x) \/ RIsZero(S.sh[a])) /\ RClose(x, S.sh[a], Eps)
  THEN [S EXCEPT !.sh[a] = x, !.all = RAdd(RSub(@, S.sh[a]), x)]
  ELSE S

\* an automatically generated adjustment row
StepInjected(mm, d) ==
  LET a == d.af
      cand == { x \in mm.pend : x.af = a }
  IN  IF ~(d.inj /\ d.act = "Sfla" /\ cand # {}) /\ mm.weak THEN Ambig("who receives the adjustment is decided by a rounding residue of shares") ELSE
      Chk(d.inj /\ d.act = "Sfla" /\ cand # {}, "adjust",
          "expected an automatic adjustment for one of the buying affiliates, got " \o d.act \o " for " \o a,
      LET x == CHOOSE x \in cand : TRUE
          S2 == ApplyAdj(mm.S, {x})
      IN  Chk(RClose(D(d.amt), x.amt, Eps2), "adjust",
              "adjustment amount " \o RStr(D(d.amt)) \o " expected " \o RStr(x.amt),
          Chk(RClose(D(d.acb), S2.acb[a], Eps2) /\ RClose(D(d.sh), S2.sh[a], Eps) /\ RClose(D(d.all), S2.all, Eps),
              "arith", "state after automatic adjustment",
          Finish([mm EXCEPT !.k = @ + 1, !.S = S2, !.L = LogInto(mm.L, d), !.pend = @ \ {x}]))))

\* bring the row acb processed to position i when it is one of the per-affiliate copies of a
\* global split (their relative order is immaterial)
Align(R, i, d) ==
  IF i <= Len(R) /\ R[i].act = "Split" /\ d.act = "Split" /\ R[i].idx = d.idx /\ R[i].af # d.af
  THEN LET js == { j \in (i + 1)..Len(R) : R[j].act = "Split" /\ R[j].idx = d.idx /\ R[j].af = d.af }
       IN  IF js = {} THEN R
           ELSE LET j == CHOOSE j \in js : TRUE IN [R EXCEPT ![i] = R[j], ![j] = R[i]]
  ELSE R

StepRow(mm0, d) ==
  LET R  == Align(mm0.R, mm0.i, d)
      mm == [mm0 EXCEPT !.R = R]
      i  == mm.i
      a  == d.af
  IN
  IF d.inj /\ mm.weak THEN Ambig("who receives the adjustment is decided by a rounding residue of shares") ELSE
  Chk(~d.inj, "adjust", "automatic adjustment that the rules do not call for",
  Chk(i <= Len(R), "order", "more transactions reported than rows given",
  LET t == R[i] IN
  Chk(~(t.grp /\ ~(d.act = "Split" /\ d.idx = t.idx)), "splitexp",
      "split for all affiliates was not applied to " \o t.af,
  Chk(~(d.act = "Split" /\ ~t.grp /\ t.act # "Split"), "splitexp",
      "split applied to " \o a \o ", who is not among the affiliates of this security",
  Chk(d.idx = t.idx /\ d.act = t.act /\ d.af = t.af /\ d.sd = t.sd, "order",
      "expected row " \o ToString(t.idx) \o " " \o t.act \o " " \o t.af \o ", acb processed row "
        \o ToString(d.idx) \o " " \o d.act \o " " \o a,
  \* a sale that empties the position in acb's decimals but leaves a residue of 1e-27 shares in exact
  \* arithmetic (or the other way round) is read as selling exactly down to the reported balance: the residue
  \* would otherwise decide who "still holds shares" at the end of the superficial-loss period
  LET s0 == Step(mm.S, mm.REG, R, i)
      resid == /\ t.act = "Sell" /\ s0.ok /\ ~REq(D(d.sh), s0.S.sh[a])
               /\ (RIsZero(D(d.sh)) \/ RIsZero(s0.S.sh[a])) /\ RClose(D(d.sh), s0.S.sh[a], Eps)
      Rr == IF resid THEN [R EXCEPT ![i].q = RSub(mm.S.sh[a], D(d.sh))] ELSE R
      s == IF resid THEN Step(mm.S, mm.REG, Rr, i) ELSE s0
      te == Rr[i]
  IN
  IF ~s.ok
  THEN (IF Borderline(mm, i) THEN Ambig(s.why)
        ELSE FailV(IF s.why \in {"sfl-mismatch", "sfl-without-loss"} THEN "sflreject" ELSE "reject",
                   "accepted a row the rules reject: " \o s.why))
  ELSE
  LET S2 == s.S
      sflI == IF d.hasSfl THEN D(d.sfl) ELSE RZero
      rawI == RAdd(D(d.gain), sflI)
      implSup == d.hasSfl /\ ~RIsZero(D(d.sfl))
      \* a superficial part below the band (a residue of 1e-27 shares left by decimal rounding) that acb
      \* rounds to nothing is not a disagreement: the loss is then taken as reported in full
      negl == s.superficial /\ ~implSup /\ ~s.manual /\ RLe(RAbs(s.sfl), Eps)
      sup == s.superficial /\ ~negl
      \* a wrong figure that also breaks the conservation identity ON THE FIGURES REPORTED (C03) is reported as that
      mmL == [mm EXCEPT !.k = @ + 1, !.L = LogInto(mm.L, d), !.pend = {},
                        !.AL = AccStep(mm.AL, mm.L, te, IF d.hasGain THEN D(d.gain) ELSE RZero), !.fL = @ \/ (d.hasSfl /\ d.over)]
      ChkA(cond, detail, rest) ==
        IF cond THEN rest
        ELSE IF s.adj = {} /\ ~ConserveOK(mmL) THEN FailV("conserve", "gains so far differ from proceeds - costs + roc + cost base held (" \o detail \o ")")
        ELSE FailV("arith", detail)
  IN
  ChkA(RClose(D(d.sh), S2.sh[a], Eps), "share balance " \o RStr(D(d.sh)) \o " expected " \o RStr(S2.sh[a]),
  ChkA(RClose(D(d.all), S2.all, Eps), "all-affiliate balance " \o RStr(D(d.all)) \o " expected " \o RStr(S2.all),
  ChkA(mm.REG[a] \/ RClose(D(d.acb), S2.acb[a], Eps), "cost base " \o RStr(D(d.acb)) \o " expected " \o RStr(S2.acb[a]),
  ChkA(d.hasGain = s.hasGain, "capital gain present/absent",
  ChkA(~s.hasGain \/ RClose(rawI, s.raw, Eps), "gain before denial " \o RStr(rawI) \o " expected " \o RStr(s.raw),
  IF implSup # sup
  THEN (IF Borderline(mm, i) THEN Ambig("loss decision within rounding noise")
        ELSE FailV("sfl", IF s.superficial THEN "loss is superficial (ratio " \o RStr(s.ratio) \o ") but was reported in full"
                          ELSE "loss is not superficial but was denied"))
  ELSE
  Chk(~sup \/ RClose(sflI, s.sfl, Eps2), "sfl", "denied amount " \o RStr(sflI) \o " expected " \o RStr(s.sfl),
  Chk(~sup \/ s.manual \/ RClose(RDiv(D(d.rn), D(d.rd)), s.ratio, Eps), "sfl",
      "ratio " \o RStr(D(d.rn)) \o " / " \o RStr(D(d.rd)) \o " expected " \o RStr(s.ratio),
  Chk(~s.hasGain \/ RClose(D(d.gain), s.gain, Eps2), "sfl", "reported gain " \o RStr(D(d.gain)) \o " expected " \o RStr(s.gain),
  Finish([mm EXCEPT !.k = @ + 1, !.i = @ + 1, !.S = Snap(IF negl THEN ApplyAdj(S2, s.adj) ELSE S2, d), !.L = LogInto(mm.L, d), !.pend = IF negl THEN {} ELSE s.adj,
                    !.weak = te.act = "Sell" /\ s.hasGain /\ RNegative(s.raw) /\ ResidueSensitive(Rr, i, S2),
                    !.A = AccStep(mm.A, mm.S, te, IF s.hasGain THEN s.gain ELSE RZero),
                    !.AL = AccStep(mm.AL, mm.L, t, IF d.hasGain THEN D(d.gain) ELSE RZero),
                    !.fS = @ \/ s.over, !.fL = @ \/ (d.hasSfl /\ d.over)]))))))))))))))

StepDelta(mm, d) ==
  Chk(d.af \in DOMAIN mm.REG, "order", "affiliate " \o d.af \o " not among the input's affiliates",
  Chk(LoggedOK(mm, d), "inv", "negative balance, or cost base / gain shown for a registered affiliate",
  Chk(ChainOK(mm, d), "chain", "pre-transaction status differs from the affiliate's previous post-transaction status",
  IF mm.pend # {} THEN StepInjected(mm, d) ELSE StepRow(mm, d))))

(***************************************************************************)
(* how the segment ended                                                   *)
(***************************************************************************)
OffendingDays(R, i, why) ==
  {R[i].td, R[i].sd} \cup
  (IF why = "oversell-in-window" THEN UNION { {R[j].td, R[j].sd} : j \in After(R, i) } ELSE {})

EndSeg(mm, seg) ==
  CASE seg.status = "ok" ->
         Chk(~(mm.pend = {} /\ mm.i <= Len(mm.R) /\ mm.R[mm.i].grp), "splitexp",
             "split for all affiliates was not applied to " \o mm.R[mm.i].af,
         Chk(mm.pend = {} /\ mm.i = Len(mm.R) + 1, "reject", "reported success without processing every row",
         Ok(Idle)))
    [] seg.status = "rejected" ->
         Chk(mm.pend = {}, "adjust", "automatic adjustments missing before the rejection",
         Chk(mm.i <= Len(mm.R), "reject", "rejected although every row had been processed: " \o seg.msg,
         LET \* the per-affiliate copies of a global split may be processed in any order: the
             \* rejection may stem from any remaining copy
             grpJ == IF mm.R[mm.i].grp
                     THEN { j \in mm.i..Len(mm.R) : mm.R[j].grp /\ mm.R[j].idx = mm.R[mm.i].idx
                                                     /\ ~Step(mm.S, mm.REG, mm.R, j).ok }
                     ELSE {}
             jj == IF grpJ = {} THEN mm.i ELSE CHOOSE j \in grpJ : TRUE
             s == Step(mm.S, mm.REG, mm.R, jj) IN
         IF s.ok
         THEN (IF Borderline(mm, mm.i) THEN Ambig("rejection within rounding noise")
               ELSE FailV(IF mm.R[jj].hasSfl THEN "sflreject" ELSE "reject",
                          "rejected a history the rules accept, at row " \o ToString(mm.R[mm.i].idx) \o ": " \o seg.msg))
         ELSE Chk(\E n \in DOMAIN seg.msgDays : seg.msgDays[n] \in OffendingDays(mm.R, mm.i, s.why), "message",
                  "rejection message does not name a date of the offending transaction: " \o seg.msg,
              Ok(Idle))))
    [] seg.status = "panic" -> FailV("panic", seg.msg)
    [] seg.status = "skipped" -> [v |-> "skip", m |-> Idle, cls |-> "skip", detail |-> seg.msg]
    [] seg.status = "dupsplit" ->
         \* the run was refused ahead of the bookkeeping as "duplicate split entries" of this security:
         \* legitimate exactly when the rule of splits.rs (Tx!DupSplit) applies to its rows; otherwise a
         \* history the rules accept was rejected
         IF DupSplit([n \in DOMAIN seg.rows |-> ToRow(seg.rows[n])])
         THEN [v |-> "skip", m |-> Idle, cls |-> "skip", detail |-> seg.msg]
         ELSE FailV("reject", "refused as duplicated split entries although no affiliate-specific split stands within a day of a split for all affiliates: " \o seg.msg)
    [] OTHER -> FailV("reject", "run failed before bookkeeping: " \o seg.msg)

(***************************************************************************)
(* the trace state machine                                                 *)
(***************************************************************************)
Bump(f) == [tally EXCEPT ![f] = @ + 1]
Init == l = 1 /\ m = Idle /\ tally = [ok |-> 0, fail |-> 0, ambig |-> 0, skip |-> 0, steps |-> 0]

Conclude(r) ==
  \* r is a verdict that ends the segment
  /\ l' = l + 1
  /\ m' = Idle
  /\ tally' = Bump(r.v)
  /\ (r.v = "fail" => PrintT("@@FAIL " \o ToJson([id |-> Seg.id, sec |-> Seg.sec, line |-> l, cls |-> r.cls, detail |-> r.detail])))
  /\ (r.v = "ambig" => PrintT("@@AMBIG " \o ToJson([id |-> Seg.id, sec |-> Seg.sec, line |-> l, detail |-> r.detail])))

Next ==
  /\ l <= Len(Segs)
  /\ IF m.k = 0
     THEN IF Seg.status \in {"skipped", "dupsplit"} THEN Conclude(EndSeg(Idle, Seg))
          ELSE /\ m' = Load /\ UNCHANGED <<l, tally>>
     ELSE IF m.k <= Len(Seg.deltas)
          THEN LET r == StepDelta(m, Seg.deltas[m.k])
               IN  IF r.v = "ok" THEN /\ m' = r.m /\ tally' = Bump("steps") /\ UNCHANGED l
                   ELSE Conclude(r)
          ELSE Conclude(EndSeg(m, Seg))

Spec == Init /\ [][Next]_vars

(***************************************************************************)
(* Invariants of the specification state, checked on every state of every  *)
(* validated trace (they are properties of the rules; a violation here is  *)
(* a defect of the specification, not of acb).                             *)
(***************************************************************************)
SpecStateOK == m.k > 0 => StateOK(m.S, m.REG)
SpecConserved == (m.k > 0 /\ m.qual /\ ~m.fS /\ m.pend = {}) => Conserved(m.A, m.S)

\* acceptance: every segment consumed; the summary line is parsed by bin/check
Done == l = Len(Segs) + 1
Summary == Done => PrintT("@@SUMMARY " \o ToJson(tally))
Accepted == TLCGet("stats").diameter >= Len(Segs) + 1
=============================================================================
