-------------------------- MODULE MC_Rates_window --------------------------
(* The loader over a 24-day window around a real year end (model day k = 2016-12-20 + k, so   *)
(* that year 0 is the end of 2016 - noon series - and year 1 the start of 2017 - daily         *)
(* series), with the real 7-day look-back.  Look-ups stay 7 days inside the window.  The        *)
(* calendars have weekends, the year-end holidays, and outages of exactly 7 and 8 days.         *)
EXTENDS MC_Rates
Weekdays == Days \ {4, 5, 11, 12, 18, 19}          \* 2016-12-24/25, 12-31/01-01, 01-07/08 are weekends
CalendarsV == { Weekdays \ {6, 7, 13},              \* Dec 26, 27 and Jan 2 holidays
                Weekdays \ (8..14),                 \* nothing from Dec 28 to Jan 3 (7 days)
                Weekdays \ (8..15),                 \* nothing from Dec 28 to Jan 4 (8 days)
                Weekdays \ (12..23),                \* nothing published yet in the new year
                Days \ (2..9) }
=============================================================================
