-------------------------------- MODULE Etrade --------------------------------
(***************************************************************************)
(* etrade-plan-pdf-tx-extract (property C19): benefit confirmations (RSU   *)
(* release, ESPP purchase) and trade confirmations are combined into acb   *)
(* transactions.                                                           *)
(*   benefit  [sec, day, shares (released / purchased), fmv, sold (shares  *)
(*            sold to cover taxes, 0 if none), sprice, fee, note]          *)
(*   trade    [sec, td, sd, shares, price, comm (commission + fees)]       *)
(* A MATCHING assigns to every benefit with sold > 0 a set of trades of    *)
(* the same security, traded on the benefit's day or up to five days       *)
(* later, whose shares add up to sold; the sets of different benefits are  *)
(* disjoint.  For a matching M the output is: one purchase per benefit     *)
(* (shares at fmv on the benefit's day), one sale per benefit with sold >  *)
(* 0 (sold shares at the stated sale price and fee, DATED AS ONE OF ITS    *)
(* MATCHED TRADES), and every trade in no set as a manual trade with its   *)
(* own price, quantity and fees; ordered by settlement date.  Which valid  *)
(* matching the tool picks is its own business; no valid matching =>       *)
(* error.  EachShareOnce: every trade confirmation's shares appear exactly *)
(* once - inside a sell-to-cover sale or as a manual trade.                *)
(***************************************************************************)
EXTENDS Rat, Integers, Sequences, FiniteSets, TLC

Window == 5
Candidates(b, T) == { n \in DOMAIN T : T[n].sec = b.sec /\ b.day <= T[n].td /\ T[n].td <= b.day + Window }
SumShares(T, S) ==
  LET RECURSIVE go(_)
      go(U) == IF U = {} THEN RZero ELSE LET x == CHOOSE x \in U : TRUE IN RAdd(T[x].shares, go(U \ {x}))
  IN go(S)
NeedsMatch(b) == RPos(b.sold)
\* M : DOMAIN B -> SUBSET DOMAIN T
ValidMatching(B, T, M) ==
  /\ \A n \in DOMAIN B :
        IF NeedsMatch(B[n])
        THEN M[n] # {} /\ M[n] \subseteq Candidates(B[n], T) /\ REq(SumShares(T, M[n]), B[n].sold)
        ELSE M[n] = {}
  /\ \A n, k \in DOMAIN B : n # k => M[n] \cap M[k] = {}
\* all valid matchings, built benefit by benefit from each benefit's own admissible sets
AdmissibleSets(B, T, n) ==
  IF NeedsMatch(B[n]) THEN { S \in SUBSET Candidates(B[n], T) : S # {} /\ REq(SumShares(T, S), B[n].sold) } ELSE {{}}
RECURSIVE MatchingsUpTo(_, _, _)
MatchingsUpTo(B, T, n) ==
  IF n = 0 THEN {<<>>}
  ELSE { Append(m, S) : m \in MatchingsUpTo(B, T, n - 1), S \in AdmissibleSets(B, T, n) } \ 
       { x \in { Append(m, S) : m \in MatchingsUpTo(B, T, n - 1), S \in AdmissibleSets(B, T, n) } :
           \E k \in 1..(n - 1) : x[k] \cap x[n] # {} }
Matchings(B, T) == MatchingsUpTo(B, T, Len(B))
Used(B, M) == UNION { M[n] : n \in DOMAIN B }

(***************************************************************************)
(* The selection rule of the tool (find_sell_to_cover_trade_set): benefits *)
(* are taken in file-name order; each takes, among the sets of still       *)
(* unconsumed candidate trades adding up to its sold shares, one whose     *)
(* share-weighted average price is closest to its stated sale price.  The  *)
(* choice is greedy: a benefit can take the only trade a later benefit     *)
(* could have used, and the run is then refused although a valid matching  *)
(* exists (GreedyCanFail) - the recorded finding of C19.                   *)
(***************************************************************************)
RECURSIVE SumValue(_, _)
SumValue(T, S) == IF S = {} THEN RZero ELSE LET x == CHOOSE x \in S : TRUE IN RAdd(RMul(T[x].price, T[x].shares), SumValue(T, S \ {x}))
WAvg(T, S) == RDiv(SumValue(T, S), SumShares(T, S))
Dist(b, T, S) == RAbs(RSub(b.sprice, WAvg(T, S)))
OpenSets(b, T, left) == { S \in SUBSET (Candidates(b, T) \cap left) : S # {} /\ REq(SumShares(T, S), b.sold) }
BestSets(b, T, left) == { S \in OpenSets(b, T, left) : \A U \in OpenSets(b, T, left) : RLe(Dist(b, T, S), Dist(b, T, U)) }
RECURSIVE GreedyFail(_, _, _, _, _)
\* some sequence of greedy choices (ties: any of the closest sets) leaves a benefit without candidates
GreedyFail(B, T, ord, k, left) ==
  IF k > Len(ord) THEN FALSE
  ELSE LET b == B[ord[k]] IN
       IF ~NeedsMatch(b) THEN GreedyFail(B, T, ord, k + 1, left)
       ELSE IF OpenSets(b, T, left) = {} THEN TRUE
       ELSE \E S \in BestSets(b, T, left) : GreedyFail(B, T, ord, k + 1, left \ S)
GreedyCanFail(B, T, ord) == GreedyFail(B, T, ord, 1, DOMAIN T)

EachShareOnce(B, T, M) ==
  RAdd(RSumSeq([n \in DOMAIN B |-> B[n].sold]), SumShares(T, DOMAIN T \ Used(B, M))) = SumShares(T, DOMAIN T)

\* expected output rows for matching M, as a set of
\* [kind, sec, shares, price, comm, dates (set of admissible <<td, sd>> pairs)]
Buys(B) == { [kind |-> "buy", n |-> n, sec |-> B[n].sec, shares |-> B[n].shares, price |-> B[n].fmv, comm |-> RZero,
              dates |-> {<<B[n].day, B[n].day>>}] : n \in DOMAIN B }
Covers(B, T, M) == { [kind |-> "cover", n |-> n, sec |-> B[n].sec, shares |-> B[n].sold, price |-> B[n].sprice, comm |-> B[n].fee,
                      dates |-> { <<T[k].td, T[k].sd>> : k \in M[n] }] : n \in { n \in DOMAIN B : NeedsMatch(B[n]) } }
Manuals(B, T, M) == { [kind |-> "manual", n |-> k, sec |-> T[k].sec, shares |-> T[k].shares, price |-> T[k].price, comm |-> T[k].comm,
                       dates |-> {<<T[k].td, T[k].sd>>}] : k \in DOMAIN T \ Used(B, M) }
Expected(B, T, M) == Buys(B) \cup Covers(B, T, M) \cup Manuals(B, T, M)
=============================================================================
