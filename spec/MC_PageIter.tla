---------------------------- MODULE MC_PageIter ----------------------------
(* Every document of 0..MaxPages pages x every list of up to MaxGroups hint groups of up to MaxLen  *)
(* pages drawn from 0..MaxPages+1 (so: pages below and above the range, repeated pages, pages in    *)
(* descending order, empty groups): the groups computed by SafeChunks are iterated by the iterator  *)
(* of module PageIter, step by step.  Invariants: no page outside 1..n is ever requested, the       *)
(* iterator never panics, every yielded text is the text of the page it is yielded for, and at the  *)
(* end exactly the pages 1..n have been yielded, hinted pages first in hint order.                  *)
(* Statements (kind "stmt"): documents of StmtPages pages with the month on page m and the table    *)
(* on page t (optionally a second table page), read with the tool's own hints.                      *)
EXTENDS PageIter, Json, SequencesExt
CONSTANTS MaxPages, MaxGroups, MaxLen, StmtPages
VARIABLES kind, hints, doc
vars == <<ivars, kind, hints, doc>>

RECURSIVE SeqsUpTo(_, _)
SeqsUpTo(S, k) == IF k = 0 THEN {<<>>} ELSE SeqsUpTo(S, k - 1) \cup { Append(s, x) : s \in { t \in SeqsUpTo(S, k - 1) : Len(t) = k - 1 }, x \in S }
GroupSpace == SeqsUpTo(0..(MaxPages + 1), MaxLen)
HintSpace == SeqsUpTo(GroupSpace, MaxGroups)
NoDoc == [month |-> {}, table |-> {}]
Docs(np) == { [month |-> ms, table |-> ts] : ms \in { {m} : m \in 1..np } \cup { {1, np} }, ts \in { {t} : t \in 1..np } \cup { {t, np} : t \in (1..np) \cap {2} } }

Init ==
  \/ /\ kind = "pages" /\ doc = NoDoc
     /\ \E np \in 0..MaxPages, h \in HintSpace : hints = h /\ IterInit(np, SafeChunks(np, h))
  \/ /\ kind = "stmt" /\ hints = ToolHints
     /\ \E np \in StmtPages : \E d \in Docs(np) : doc = d /\ IterInit(np, SafeChunks(np, ToolHints))
Next == IterNext /\ UNCHANGED <<kind, hints, doc>>
Spec == Init /\ [][Next]_vars

\* the groups, judged without reference to how SafeChunks builds them
HintedInRange == SelectSeq(Flatten(hints), LAMBDA p : p >= 1 /\ p <= n)
ChunksCover == Range(Flatten(groups)) = 1..n
ChunksNoEmpty == \A g \in DOMAIN groups : groups[g] # <<>>
ChunksHintsFirst == SubSeq(Flatten(groups), 1, Len(HintedInRange)) = HintedInRange
ChunksRestOnce == \A p \in 1..n : p \notin Range(HintedInRange) => Cardinality({ i \in DOMAIN Flatten(groups) : Flatten(groups)[i] = p }) = 1
\* a statement whose month is on page 1, or on the table's own page, is always read
Result == Scan(Flatten(groups), doc)
StmtRead == (kind = "stmt" /\ (1 \in doc.month \/ doc.month = doc.table)) => Result.res = "ok" /\ Result.table \in doc.table /\ Result.month \in doc.month

Finished == status \in {"end", "panic"}
EmitCase == Finished => PrintT("@@CASE " \o ToJson(
   [id |-> kind, kind |-> kind, n |-> n, hints |-> hints, groups |-> groups, status |-> status,
    order |-> [i \in DOMAIN yielded |-> yielded[i][1]],
    month |-> SetToSeq(doc.month), table |-> SetToSeq(doc.table), res |-> Result.res, rtable |-> Result.table, rmonth |-> Result.month]))
=============================================================================
