------------------------------ MODULE MC_Etrade ------------------------------
(* Every scenario of up to MaxB benefits and MaxT trade confirmations over small alphabets:     *)
(* benefit days {0, 3}, sold shares {2, 3};    trades of 1..3 shares, 0 / 1 / 5 / 6 days after   *)
(* day 0, one of them in another security.  For every valid matching the every-share-once law   *)
(* holds; scenarios (matchable or not) are emitted for the harness.                              *)
EXTENDS Etrade, Json
CONSTANTS MaxB, MaxT, TradeDays, PriceMs
VARIABLES B, T, done
vars == <<B, T, done>>
Ben(day, sold, price) == [sec |-> "FOO", day |-> day, shares |-> RN(10), fmv |-> RN(100), sold |-> RN(sold), sprice |-> RDec(price, 1), fee |-> RDec(417, 2)]
Benefits == { Ben(d, s, 1015) : d \in {0, 3}, s \in {2, 3} }
Trades == { [sec |-> sec, td |-> d, sd |-> d + 2, shares |-> RN(q), price |-> RDec(p, 1), comm |-> RDec(5, 0)] :
              sec \in {"FOO"}, d \in TradeDays, q \in {1, 2, 3}, p \in PriceMs }
           \cup { [sec |-> "BAR", td |-> 1, sd |-> 3, shares |-> RN(2), price |-> RDec(50, 0), comm |-> RZero] }
Init == B = <<>> /\ T = <<>> /\ done = FALSE
AddB == ~done /\ T = <<>> /\ Len(B) < MaxB /\ \E b \in Benefits : B' = Append(B, b) /\ UNCHANGED <<T, done>>
AddT == ~done /\ B # <<>> /\ Len(T) < MaxT /\ \E t \in Trades :
          /\ (T # <<>> => (T[Len(T)].td < t.td \/ (T[Len(T)].td = t.td /\ RLe(T[Len(T)].shares, t.shares))))
          /\ T' = Append(T, t) /\ UNCHANGED <<B, done>>
Finish == ~done /\ B # <<>> /\ done' = TRUE /\ UNCHANGED <<B, T>>
Next == AddB \/ AddT \/ Finish
Spec == Init /\ [][Next]_vars
InvEachShareOnce == done => \A M \in Matchings(B, T) : EachShareOnce(B, T, M)
\* sets of different benefits never share a trade, and every set lies in its benefit's window
InvDisjointInWindow == done => \A M \in Matchings(B, T) : \A n \in DOMAIN B : \A k \in M[n] : T[k].td - B[n].day \in 0..Window
Pair(x) == <<x[1], x[2]>>
J(r) == [m |-> ToString(r[1]), d |-> ToString(r[2])]
EmitCase == done => PrintT("@@CASE " \o ToJson([id |-> "et", matchable |-> Matchings(B, T) # {},
              benefits |-> [n \in DOMAIN B |-> [day |-> B[n].day, sold |-> B[n].sold[1], sprice |-> J(B[n].sprice)]],
              trades |-> [n \in DOMAIN T |-> [sec |-> T[n].sec, td |-> T[n].td, sd |-> T[n].sd, shares |-> T[n].shares[1], price |-> J(T[n].price)]]]))
=============================================================================
