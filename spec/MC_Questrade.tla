----------------------------- MODULE MC_Questrade -----------------------------
(* Every activity sheet of up to MaxRows rows over an alphabet of Questrade activities (trades  *)
(* in CAD and USD with the export's sign conventions, a stock distribution, a liquidation, a    *)
(* USD dividend, both legs of a currency conversion in either order, ignored activities, two    *)
(* accounts one of them registered) and every column layout.  TLC checks the cash identity on   *)
(* every well-formed sheet and emits it for the harness.                                        *)
EXTENDS Questrade, Json
CONSTANTS MaxRows, Layouts
VARIABLES sheet, lay, done
vars == <<sheet, lay, done>>
P(m, e) == RDec(m, e)
Act(act, sym, cur, qty, price, comm, net, acct, num) ==
  [act |-> act, sym |-> sym, cur |-> cur, qty |-> qty, price |-> price, comm |-> comm, net |-> net, acct |-> acct, num |-> num]
Templates ==
  { Act("BUY", "FOO", "CAD", <<10, 0>>, <<125, 1>>, <<-495, 2>>, <<-12995, 2>>, "Margin", "111"),
    Act("SELL", "FOO", "CAD", <<-4, 0>>, <<15, 0>>, <<-495, 2>>, <<5505, 2>>, "Margin", "111"),
    Act("BUY", "BAR", "USD", <<3, 0>>, <<201, 1>>, <<-1, 0>>, <<-613, 1>>, "Margin", "111"),
    Act("SELL", "BAR", "USD", <<-2, 0>>, <<25, 0>>, <<0, 0>>, <<50, 0>>, "Margin", "111"),
    Act("DIS", "BAR", "USD", <<1, 0>>, <<0, 0>>, <<0, 0>>, <<0, 0>>, "Margin", "111"),
    Act("LIQ", "BAR", "USD", <<-1, 0>>, <<7, 0>>, <<0, 0>>, <<7, 0>>, "Margin", "111"),
    \* worthless shares liquidated for a fee: no proceeds, but USD cash moves
    Act("LIQ", "BAR", "USD", <<-2, 0>>, <<0, 0>>, <<-25, 1>>, <<-25, 1>>, "Margin", "111"),
    Act("DIV", "BAR", "USD", <<0, 0>>, <<0, 0>>, <<0, 0>>, <<315, 2>>, "Margin", "111"),
    \* a dividend taken back (reversal / correction): USD cash leaves the account
    Act("DIV", "BAR", "USD", <<0, 0>>, <<0, 0>>, <<0, 0>>, <<-61, 0>>, "Margin", "111"),
    Act("FXT", "", "CAD", <<0, 0>>, <<0, 0>>, <<0, 0>>, <<-130, 0>>, "Margin", "111"),
    Act("FXT", "", "USD", <<0, 0>>, <<0, 0>>, <<0, 0>>, <<100, 0>>, "Margin", "111"),
    Act("DEP", "", "CAD", <<0, 0>>, <<0, 0>>, <<0, 0>>, <<1000, 0>>, "Margin", "111"),
    Act("BUY", "FOO", "CAD", <<5, 0>>, <<10, 0>>, <<0, 0>>, <<-50, 0>>, "TFSA", "222") }
Days == {19000, 19001}
ToRow(t, day) ==
  [act |-> t.act, sym |-> t.sym, cur |-> t.cur, qty |-> P(t.qty[1], t.qty[2]), price |-> P(t.price[1], t.price[2]),
   comm |-> P(t.comm[1], t.comm[2]), net |-> P(t.net[1], t.net[2]), acct |-> t.acct, num |-> t.num, day |-> day, sday |-> day + 2]
Rows == [n \in DOMAIN sheet |-> ToRow(sheet[n].t, sheet[n].day)]
Init == sheet = <<>> /\ lay \in Layouts /\ done = FALSE
Add == ~done /\ Len(sheet) < MaxRows /\ \E t \in Templates, d \in Days :
          /\ (sheet # <<>> => d >= sheet[Len(sheet)].day)
          /\ sheet' = Append(sheet, [t |-> t, day |-> d]) /\ UNCHANGED <<lay, done>>
Finish == ~done /\ sheet # <<>> /\ done' = TRUE /\ UNCHANGED <<sheet, lay>>
Next == Add \/ Finish
Spec == Init /\ [][Next]_vars
InvCash == (done /\ WellFormed(Rows)) => CashConserved(Rows)
\* one output row per trade activity, none for the ignored ones
InvOnePerTrade == done => Len(Convert(Rows).out) = Cardinality({ n \in DOMAIN sheet : IsTrade(Rows[n]) })
EmitCase == (done /\ WellFormed(Rows)) => PrintT("@@CASE " \o ToJson([id |-> "qt", layout |-> lay, rows |-> sheet]))
=============================================================================
