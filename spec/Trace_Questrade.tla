--------------------------- MODULE Trace_Questrade ---------------------------
(***************************************************************************)
(* Property C18 on the real converter: one trace line per activity sheet   *)
(* (the activities as generated, the column layout used, whether number    *)
(* cells were numeric) with the transactions sheet_to_txs emitted, in the  *)
(* order tx-export-convert prints them, and what acb's own CSV reader made *)
(* of the printed rows.  Checked against module Questrade:                 *)
(*   class "convert"  the emitted rows are exactly Questrade!Emitted       *)
(*   class "cash"     signed USD.FX total = net USD cash flow of the input *)
(*   class "order"    rows are printed in the specified order              *)
(*   class "accept"   every printed row is accepted by acb                 *)
(*   class "option"   --no-fx / --security / --account / --no-sort /       *)
(*                    --usd-exchange-rate relate to the plain output as    *)
(*                    documented (real binary on a real .xlsx)             *)
(***************************************************************************)
EXTENDS Questrade, Json, IOUtils
Recs == ndJsonDeserialize(IOEnv.TRACE)
VARIABLES l, tally
vars == <<l, tally>>
D(x) == RDec(x.m, x.e)
FailV(cls, detail) == [v |-> "fail", cls |-> cls, detail |-> detail]
OkV == [v |-> "ok", cls |-> "", detail |-> ""]
Chk(cond, cls, detail, rest) == IF cond THEN rest ELSE FailV(cls, detail)
InRows(rec) == [n \in DOMAIN rec.rows |->
   LET r == rec.rows[n] IN
   [act |-> r.act, sym |-> r.sym, cur |-> r.cur, qty |-> D(r.qty), price |-> D(r.price), comm |-> D(r.comm), net |-> D(r.net),
    acct |-> r.acct, num |-> r.num, day |-> r.day, sday |-> r.sday]]
Norm(act) == IF act \in {"SELL", "Sell", "sell"} THEN "SELL" ELSE act
NormRows(rows) == [n \in DOMAIN rows |-> [rows[n] EXCEPT !.act = Norm(@), !.sym = IF @ = "H038778" THEN "DLR.TO" ELSE @]]
Matches(e, o) ==
  /\ e.sec = o.sec /\ e.act = o.act /\ REq(e.q, D(o.q)) /\ REq(e.p, D(o.p)) /\ REq(e.c, D(o.c))
  /\ e.cur = o.cur /\ e.hasRate = o.hasRate /\ (e.hasRate => RClose(e.rate, D(o.rate), Eps9))
  /\ e.af = o.af /\ e.td = o.td /\ e.sd = o.sd /\ e.row = o.row
Judge(rec) ==
  LET rows == NormRows(InRows(rec))
      exp == Emitted(rows)
      missing == { n \in DOMAIN exp : ~\E m \in DOMAIN rec.out : Matches(exp[n], rec.out[m]) }
      extra == { m \in DOMAIN rec.out : ~\E n \in DOMAIN exp : Matches(exp[n], rec.out[m]) }
      fxOut == { m \in DOMAIN rec.out : rec.out[m].sec = "USD.FX" }
      signedOut == RSumSeq([m \in DOMAIN rec.out |-> IF m \in fxOut THEN (IF rec.out[m].act = "Buy" THEN D(rec.out[m].q) ELSE RNeg(D(rec.out[m].q))) ELSE RZero])
      tbOf(o) == IF o.sec # "USD.FX" THEN 0 ELSE IF o.act = "Buy" THEN 1 ELSE 2
      unordered == { m \in 1..(Len(rec.out) - 1) :
                      LET a == rec.out[m]  b == rec.out[m + 1] IN
                      b.sd < a.sd \/ (b.sd = a.sd /\ (tbOf(b) < tbOf(a) \/ (tbOf(b) = tbOf(a) /\ b.row < a.row))) }
  IN
  IF ~WellFormed(rows) THEN [v |-> "skip", cls |-> "", detail |-> ""] ELSE
  Chk(rec.status # "panic", "panic", rec.msg,
  Chk(rec.status = "ok", "convert", "a well-formed export was refused: " \o rec.msg,
  Chk(missing = {}, "convert",
      LET e == exp[IF missing = {} THEN 1 ELSE CHOOSE n \in missing : TRUE]
      IN "no emitted row for " \o e.act \o " " \o e.sec \o " of activity row " \o ToString(e.row) \o " with the expected quantity, price, commission, currency, rate, affiliate and dates",
  Chk(extra = {}, "convert", "a row was emitted that no activity accounts for: "
        \o rec.out[IF extra = {} THEN 1 ELSE CHOOSE m \in extra : TRUE].sec \o " from activity row "
        \o ToString(rec.out[IF extra = {} THEN 1 ELSE CHOOSE m \in extra : TRUE].row),
  Chk(Len(rec.out) = Len(exp), "convert", "number of emitted rows",
  Chk(REq(signedOut, RSumSeq([n \in DOMAIN rows |-> UsdFlow(rows[n])])), "cash", "signed USD.FX total differs from the net USD cash flow",
  Chk(unordered = {}, "order", "rows are not printed in settlement-date / FX-purchases-before-FX-sales / row order",
  Chk(rec.refused = "", "accept", "acb does not accept the printed rows: " \o rec.refused,
  OkV))))))))
(* ---- option combinations of the real binary on a real .xlsx ---- *)
SameOut(a, b) ==
  /\ a.sec = b.sec /\ a.act = b.act /\ REq(D(a.q), D(b.q)) /\ REq(D(a.p), D(b.p)) /\ REq(D(a.c), D(b.c)) /\ a.cur = b.cur
  /\ a.hasRate = b.hasRate /\ REq(D(a.rate), D(b.rate)) /\ a.af = b.af /\ a.td = b.td /\ a.sd = b.sd
SameSeq(x, y) == Len(x) = Len(y) /\ \A n \in DOMAIN x : SameOut(x[n], y[n])
Var(rec, opt) == rec.variants[CHOOSE n \in DOMAIN rec.variants : rec.variants[n].opt = opt]
JudgeOpts(rec) ==
  IF rec.status # "ok" THEN [v |-> "skip", cls |-> "", detail |-> ""] ELSE
  LET base == Var(rec, "base").rows
      usdRate == RDec(13125, 4)
  IN
  Chk(\A n \in DOMAIN rec.variants : ~rec.variants[n].panicked, "panic", "tx-export-convert panicked",
  Chk(\A n \in DOMAIN rec.variants : rec.variants[n].exit = 0, "convert", "tx-export-convert failed on a well-formed export: "
        \o rec.variants[CHOOSE n \in DOMAIN rec.variants : rec.variants[n].exit # 0 \/ n = 1].stderr,
  Chk(SameSeq(Var(rec, "no-fx").rows, SelectSeq(base, LAMBDA o : o.sec # "USD.FX")), "option", "--no-fx is not the output without the USD.FX rows",
  Chk(SameSeq(Var(rec, "security").rows, SelectSeq(base, LAMBDA o : o.sec = "FOO")), "option", "--security FOO is not the output restricted to FOO",
  Chk(SameSeq(Var(rec, "account").rows, SelectSeq(base, LAMBDA o : o.margin)), "option", "--account Margin is not the output restricted to that account",
  Chk(SameSeq(Var(rec, "account-anchored").rows, SelectSeq(base, LAMBDA o : o.margin)), "option", "--account '^Margin 111' (the account's type and number from their start) is not the output restricted to that account",
  Chk(LET ns == Var(rec, "no-sort").rows IN
        Len(ns) = Len(base) /\ \A n \in DOMAIN base : \E m \in DOMAIN ns : SameOut(base[n], ns[m]), "option", "--no-sort changes the set of rows",
  Chk(LET ur == Var(rec, "usd-rate").rows IN
        Len(ur) = Len(base) /\ \A n \in DOMAIN base :
           IF base[n].cur = "USD" THEN SameOut([base[n] EXCEPT !.hasRate = TRUE, !.rate = ur[n].rate], ur[n]) /\ REq(D(ur[n].rate), usdRate)
           ELSE SameOut(base[n], ur[n]), "option", "--usd-exchange-rate does not set exactly the USD rows' rate",
  OkV))))))))

Init == l = 1 /\ tally = [ok |-> 0, fail |-> 0, ambig |-> 0, skip |-> 0, steps |-> 0]
Next ==
  /\ l <= Len(Recs)
  /\ LET r == IF Recs[l].kind = "opts" THEN JudgeOpts(Recs[l]) ELSE Judge(Recs[l]) IN
     /\ tally' = [tally EXCEPT ![r.v] = @ + 1, !.steps = @ + Len(Recs[l].rows)]
     /\ (r.v = "fail" => PrintT("@@FAIL " \o ToJson([id |-> Recs[l].id, sec |-> ToString(Recs[l].layout), line |-> l, cls |-> r.cls, detail |-> r.detail])))
  /\ l' = l + 1
Spec == Init /\ [][Next]_vars
Done == l = Len(Recs) + 1
Summary == Done => PrintT("@@SUMMARY " \o ToJson(tally))
Accepted == TLCGet("stats").diameter >= Len(Recs) + 1
=============================================================================
