/* hashseed.so - LD_PRELOAD interposer used by the C09 check: makes the per-process randomness that
 * seeds Rust's HashMap/HashSet (RandomState) a function of VERIF_HASH_SEED, so that the set of
 * iteration orders a program can exhibit is explored deterministically, seed by seed. */
#define _GNU_SOURCE
#include <dlfcn.h>
#include <stdint.h>
#include <stdlib.h>
#include <string.h>
#include <sys/types.h>
#include <unistd.h>
#include <sys/syscall.h>
#include <stdarg.h>

static uint64_t state;
static int inited;
static uint64_t next(void) {
  if (!inited) { const char *s = getenv("VERIF_HASH_SEED"); state = 0x9E3779B97F4A7C15ULL ^ (s ? strtoull(s, 0, 10) * 0xD1342543DE82EF95ULL : 0); inited = 1; }
  state ^= state << 13; state ^= state >> 7; state ^= state << 17; return state * 0x2545F4914F6CDD1DULL;
}
static void fill(void *buf, size_t n) {
  unsigned char *p = buf; size_t i = 0;
  while (i < n) { uint64_t v = next(); for (int k = 0; k < 8 && i < n; k++, i++) p[i] = (unsigned char)(v >> (8 * k)); }
}
ssize_t getrandom(void *buf, size_t buflen, unsigned int flags) {
  (void)flags;
  if (!getenv("VERIF_HASH_SEED")) { ssize_t (*real)(void *, size_t, unsigned int) = dlsym(RTLD_NEXT, "getrandom"); return real(buf, buflen, flags); }
  fill(buf, buflen); return (ssize_t)buflen;
}
int getentropy(void *buf, size_t buflen) {
  if (!getenv("VERIF_HASH_SEED")) { int (*real)(void *, size_t) = dlsym(RTLD_NEXT, "getentropy"); return real(buf, buflen); }
  fill(buf, buflen); return 0;
}
