/* crashfs.so - LD_PRELOAD interposer used by the C14 check.
 *
 * For files whose path contains "rates-" it logs the system calls of the cache write procedure
 * (open/creat with O_TRUNC or O_CREAT, write, fsync/fdatasync, close, rename) to the file named by
 * CRASHFS_LOG, one line per call:  <op> <name> <bytes>
 * and can kill the process at a named step boundary:
 *   CRASHFS_EXIT_AT="<op>:<n>:<before|after>"   _exit(137) before/after the n-th call of <op>
 * (byte-exact kills inside write are done with RLIMIT_FSIZE by the harness, not here).
 */
#define _GNU_SOURCE
#include <dlfcn.h>
#include <fcntl.h>
#include <stdarg.h>
#include <stdio.h>
#include <stdlib.h>
#include <string.h>
#include <unistd.h>
#include <sys/types.h>

#define MAXFD 4096
static char *names[MAXFD];
static int counts[8];
static const char *opnames[] = {"open", "write", "fsync", "close", "rename"};

static const char *base(const char *p) { const char *s = strrchr(p, '/'); return s ? s + 1 : p; }
static int interesting(const char *p) { return p && strstr(p, "rates-") != NULL; }

static void logline(const char *op, const char *name, long n) {
  const char *lp = getenv("CRASHFS_LOG");
  if (!lp) return;
  static int (*real_open)(const char *, int, ...) = NULL;
  static ssize_t (*real_write)(int, const void *, size_t) = NULL;
  static int (*real_close)(int) = NULL;
  if (!real_open) real_open = dlsym(RTLD_NEXT, "open");
  if (!real_write) real_write = dlsym(RTLD_NEXT, "write");
  if (!real_close) real_close = dlsym(RTLD_NEXT, "close");
  int fd = real_open(lp, O_WRONLY | O_CREAT | O_APPEND, 0644);
  if (fd < 0) return;
  char buf[512];
  int len = snprintf(buf, sizeof buf, "%s %s %ld\n", op, name, n);
  real_write(fd, buf, len);
  real_close(fd);
}

static void maybe_exit(int opidx, const char *when) {
  counts[opidx] += (strcmp(when, "before") == 0) ? 1 : 0;
  const char *spec = getenv("CRASHFS_EXIT_AT");
  if (!spec) return;
  char op[32], wh[32]; int n = 0;
  if (sscanf(spec, "%31[^:]:%d:%31s", op, &n, wh) != 3) return;
  if (strcmp(op, opnames[opidx]) == 0 && counts[opidx] == n && strcmp(wh, when) == 0) _exit(137);
}

static int do_open(const char *sym, const char *path, int flags, mode_t mode) {
  int (*real)(const char *, int, ...) = dlsym(RTLD_NEXT, sym);
  int track = interesting(path) && (flags & (O_CREAT | O_TRUNC)) && (flags & (O_WRONLY | O_RDWR));
  if (track) maybe_exit(0, "before");
  int fd = real(path, flags, mode);
  if (track && fd >= 0 && fd < MAXFD) {
    free(names[fd]);
    names[fd] = strdup(base(path));
    logline((flags & O_TRUNC) ? "create" : "open", names[fd], 0);
    maybe_exit(0, "after");
  }
  return fd;
}

int open(const char *path, int flags, ...) {
  mode_t mode = 0; va_list ap; va_start(ap, flags); if (flags & O_CREAT) mode = va_arg(ap, int); va_end(ap);
  return do_open("open", path, flags, mode);
}
int open64(const char *path, int flags, ...) {
  mode_t mode = 0; va_list ap; va_start(ap, flags); if (flags & O_CREAT) mode = va_arg(ap, int); va_end(ap);
  return do_open("open64", path, flags, mode);
}
int openat(int dirfd, const char *path, int flags, ...) {
  mode_t mode = 0; va_list ap; va_start(ap, flags); if (flags & O_CREAT) mode = va_arg(ap, int); va_end(ap);
  int (*real)(int, const char *, int, ...) = dlsym(RTLD_NEXT, "openat");
  int track = interesting(path) && (flags & (O_CREAT | O_TRUNC)) && (flags & (O_WRONLY | O_RDWR));
  if (track) maybe_exit(0, "before");
  int fd = real(dirfd, path, flags, mode);
  if (track && fd >= 0 && fd < MAXFD) {
    free(names[fd]); names[fd] = strdup(base(path));
    logline((flags & O_TRUNC) ? "create" : "open", names[fd], 0);
    maybe_exit(0, "after");
  }
  return fd;
}
int openat64(int dirfd, const char *path, int flags, ...) {
  mode_t mode = 0; va_list ap; va_start(ap, flags); if (flags & O_CREAT) mode = va_arg(ap, int); va_end(ap);
  int (*real)(int, const char *, int, ...) = dlsym(RTLD_NEXT, "openat64");
  int track = interesting(path) && (flags & (O_CREAT | O_TRUNC)) && (flags & (O_WRONLY | O_RDWR));
  if (track) maybe_exit(0, "before");
  int fd = real(dirfd, path, flags, mode);
  if (track && fd >= 0 && fd < MAXFD) {
    free(names[fd]); names[fd] = strdup(base(path));
    logline((flags & O_TRUNC) ? "create" : "open", names[fd], 0);
    maybe_exit(0, "after");
  }
  return fd;
}

ssize_t write(int fd, const void *buf, size_t n) {
  ssize_t (*real)(int, const void *, size_t) = dlsym(RTLD_NEXT, "write");
  int track = fd >= 0 && fd < MAXFD && names[fd];
  if (track) maybe_exit(1, "before");
  ssize_t r = real(fd, buf, n);
  if (track) { logline("write", names[fd], (long)r); maybe_exit(1, "after"); }
  return r;
}
int fsync(int fd) {
  int (*real)(int) = dlsym(RTLD_NEXT, "fsync");
  int track = fd >= 0 && fd < MAXFD && names[fd];
  if (track) maybe_exit(2, "before");
  int r = real(fd);
  if (track) { logline("fsync", names[fd], 0); maybe_exit(2, "after"); }
  return r;
}
int fdatasync(int fd) {
  int (*real)(int) = dlsym(RTLD_NEXT, "fdatasync");
  int track = fd >= 0 && fd < MAXFD && names[fd];
  if (track) maybe_exit(2, "before");
  int r = real(fd);
  if (track) { logline("fsync", names[fd], 0); maybe_exit(2, "after"); }
  return r;
}
int close(int fd) {
  int (*real)(int) = dlsym(RTLD_NEXT, "close");
  int track = fd >= 0 && fd < MAXFD && names[fd];
  if (track) maybe_exit(3, "before");
  int r = real(fd);
  if (track) { logline("close", names[fd], 0); free(names[fd]); names[fd] = NULL; maybe_exit(3, "after"); }
  return r;
}
int rename(const char *a, const char *b) {
  int (*real)(const char *, const char *) = dlsym(RTLD_NEXT, "rename");
  int track = interesting(a) || interesting(b);
  if (track) maybe_exit(4, "before");
  int r = real(a, b);
  if (track) {
    char both[400]; snprintf(both, sizeof both, "%s>%s", base(a), base(b));
    logline("rename", both, 0); maybe_exit(4, "after");
  }
  return r;
}
