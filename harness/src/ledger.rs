//! Observation point O1: run a case through `acb::app::run_acb_app_to_delta_models` (CSV text ->
//! parse -> Tx -> sort -> split expansion -> bookkeeping) and log one trace segment per security.

use std::collections::{BTreeMap, BTreeSet, HashMap};
use std::panic::{catch_unwind, AssertUnwindSafe};

use acb::app::run_acb_app_to_delta_models;
use acb::fx::io::testlib::new_test_rate_loader;
use acb::portfolio::io::tx_csv::TxCsvParseOptions;
use acb::portfolio::{PortfolioSecurityStatus, TxActionSpecifics, TxDelta};
use acb::util::rw::{DescribedReader, WriteHandle};
use rust_decimal::Decimal;
use serde_json::{json, Value};

use crate::model::*;

fn opening_status(case: &Case) -> Result<HashMap<String, PortfolioSecurityStatus>, String> {
    // through the parser of the -b / web UI strings (SYM:shares:acb), as the front ends do
    let specs: Vec<String> = case.opening.iter().map(|(sec, (n, c))| format!("{}:{}:{}", sec, n.text(), c.text())).collect();
    acb::app::input_parse::parse_initial_status(&specs)
}

fn act_name(d: &TxDelta) -> &'static str {
    match d.tx.action_specifics {
        TxActionSpecifics::Buy(_) => "Buy",
        TxActionSpecifics::Sell(_) => "Sell",
        TxActionSpecifics::Roc(_) => "Roc",
        TxActionSpecifics::Sfla(_) => "Sfla",
        TxActionSpecifics::Split(_) => "Split",
    }
}

pub fn delta_event(d: &TxDelta, input_keys: &BTreeSet<(u32, &'static str)>) -> Value {
    let act = act_name(d);
    let injected = !input_keys.contains(&(d.tx.read_index, act));
    let zero = Decimal::ZERO;
    let amt = match &d.tx.action_specifics {
        TxActionSpecifics::Sfla(s) => *s.total_amount(),
        _ => zero,
    };
    let (has_sfl, sfl, rn, rd, over) = match &d.sfl {
        Some(s) => (true, *s.superficial_loss, *s.ratio.numerator, *s.ratio.denominator, s.potentially_over_applied),
        None => (false, zero, zero, Decimal::ONE, false),
    };
    json!({
        "act": act, "af": d.tx.affiliate.id(), "idx": d.tx.read_index,
        "sd": day_of(d.tx.settlement_date), "td": day_of(d.tx.trade_date), "inj": injected,
        "preSh": dj(&d.pre_status.share_balance), "preAll": dj(&d.pre_status.all_affiliate_share_balance),
        "preHasAcb": d.pre_status.total_acb.is_some(),
        "preAcb": d.pre_status.total_acb.map(|a| dj(&a)).unwrap_or_else(dzero),
        "sh": dj(&d.post_status.share_balance), "all": dj(&d.post_status.all_affiliate_share_balance),
        "hasAcb": d.post_status.total_acb.is_some(),
        "acb": d.post_status.total_acb.map(|a| dj(&a)).unwrap_or_else(dzero),
        "hasGain": d.capital_gain.is_some(), "gain": d.capital_gain.map(|g| dj(&g)).unwrap_or_else(dzero),
        "hasSfl": has_sfl, "sfl": dj(&sfl), "rn": dj(&rn), "rd": dj(&rd), "over": over,
        "amt": dj(&amt),
    })
}

pub enum RunOutcome {
    Ok(HashMap<String, acb::portfolio::bookkeeping::DeltaListResult>),
    Err(String),
    Panic(String),
}

pub fn run_deltas(case: &Case) -> RunOutcome {
    let init = match opening_status(case) {
        Ok(i) => i,
        Err(e) => return RunOutcome::Err(format!("opening: {e}")),
    };
    let readers: Vec<DescribedReader> = case
        .files
        .iter()
        .enumerate()
        .map(|(i, _rows)| DescribedReader::from_string(format!("file{i}.csv"), case.file_text(i)))
        .collect();
    let res = catch_unwind(AssertUnwindSafe(|| {
        let (loader, _c, _r) = new_test_rate_loader(false);
        async_std::task::block_on(run_acb_app_to_delta_models(
            readers,
            init,
            &TxCsvParseOptions::default(),
            loader,
            WriteHandle::empty_write_handle(),
        ))
    }));
    match res {
        Ok(Ok(m)) => RunOutcome::Ok(m),
        Ok(Err(e)) => RunOutcome::Err(e),
        Err(p) => RunOutcome::Panic(panic_text(p)),
    }
}

pub fn panic_text(p: Box<dyn std::any::Any + Send>) -> String {
    if let Some(s) = p.downcast_ref::<String>() {
        s.clone()
    } else if let Some(s) = p.downcast_ref::<&str>() {
        s.to_string()
    } else {
        "panic".to_string()
    }
}

/// All rows of the case in concatenation order with their read index.
pub fn indexed_rows(case: &Case) -> Vec<(usize, &Row)> {
    let mut v = Vec::new();
    let mut idx = 0;
    for f in &case.files {
        for r in f {
            v.push((idx, r));
            idx += 1;
        }
    }
    v
}

/// One trace segment per security of the case (or a single `*` segment when the run as a
/// whole failed before bookkeeping).
pub fn ledger_segments(case: &Case) -> Vec<Value> {
    let rows = indexed_rows(case);
    let mut by_sec: BTreeMap<String, Vec<(usize, &Row)>> = BTreeMap::new();
    for (i, r) in &rows {
        by_sec.entry(r.sec.clone()).or_default().push((*i, r));
    }
    let outcome = run_deltas(case);
    let mut out = Vec::new();
    let seg_base = |sec: &str, srows: &Vec<(usize, &Row)>| -> Value {
        let mut afs: BTreeMap<String, bool> = BTreeMap::new();
        afs.insert("default".to_string(), false);
        let mut evs = Vec::new();
        for (i, r) in srows {
            let ev = row_event(r, *i);
            let af = ev["af"].as_str().unwrap().to_string();
            if af != GLOBAL_AF {
                afs.insert(af, ev["reg"].as_bool().unwrap());
            }
            evs.push(ev);
        }
        let opening = match case.opening.get(sec) {
            Some((n, c)) => json!({"has": true, "n": dj(&n.dec().unwrap_or_default()), "c": dj(&c.dec().unwrap_or_default())}),
            None => json!({"has": false, "n": dzero(), "c": dzero()}),
        };
        let afs: Vec<Value> = afs.into_iter().map(|(k, v)| json!([k, v])).collect();
        json!({"id": case.id, "sec": sec, "afs": afs, "opening": opening, "rows": evs, "tags": case.tags})
    };
    match outcome {
        RunOutcome::Ok(map) => {
            for (sec, srows) in &by_sec {
                let mut seg = seg_base(sec, srows);
                let keys: BTreeSet<(u32, &'static str)> =
                    srows.iter().map(|(i, r)| (*i as u32, norm_act(&r.act))).collect();
                let (deltas, status, msg) = match map.get(sec) {
                    Some(res) => match &res.0 {
                        Ok(d) => (d.clone(), "ok", String::new()),
                        Err(e) => (e.partial_deltas.clone(), "rejected", e.err_msg.clone()),
                    },
                    None => (vec![], "missing", String::new()),
                };
                let devs: Vec<Value> = deltas.iter().map(|d| delta_event(d, &keys)).collect();
                seg["deltas"] = json!(devs);
                seg["status"] = json!(status);
                seg["msgDays"] = json!(days_in_text(&msg));
                seg["msg"] = json!(clean(&msg));
                out.push(seg);
            }
            for sec in map.keys() {
                if !by_sec.contains_key(sec) {
                    out.push(json!({"id": case.id, "sec": sec, "afs": [], "opening": {"has": false, "n": dzero(), "c": dzero()},
                        "rows": [], "deltas": [], "status": "phantom", "msg": "security not in input", "msgDays": [], "tags": case.tags}));
                }
            }
        }
        // acb refuses, before any bookkeeping, inputs in which an affiliate-specific split sits next
        // to a split for all affiliates; that input validation is outside the ledger properties
        // (the rule itself is Tx!DupSplit; the security the message names is judged against it, the others
        // of the same run have no outcome of their own)
        RunOutcome::Err(e) if e.starts_with("Found non-global split") => {
            fail_all(&mut out, "skipped", &e, &by_sec, &seg_base);
            let named = e
                .strip_prefix("Found non-global split of ")
                .and_then(|t| t.split(" near global split on ").next())
                .unwrap_or("")
                .to_string();
            for seg in out.iter_mut() {
                if seg["sec"].as_str() == Some(named.as_str()) {
                    seg["status"] = json!("dupsplit");
                }
            }
        }
        RunOutcome::Err(e) => fail_all(&mut out, "error", &e, &by_sec, &seg_base),
        RunOutcome::Panic(e) => fail_all(&mut out, "panic", &e, &by_sec, &seg_base),
    }
    out
}

fn fail_all(
    out: &mut Vec<Value>,
    status: &str,
    e: &str,
    by_sec: &BTreeMap<String, Vec<(usize, &Row)>>,
    seg_base: &dyn Fn(&str, &Vec<(usize, &Row)>) -> Value,
) {
    for (sec, srows) in by_sec {
        let mut seg = seg_base(sec, srows);
        seg["deltas"] = json!([]);
        seg["status"] = json!(status);
        seg["msgDays"] = json!(days_in_text(e));
        seg["msg"] = json!(clean(e));
        out.push(seg);
    }
}

/// messages go through TLC's printer: keep them on one line and ASCII
pub fn clean(s: &str) -> String {
    s.chars().map(|c| if c.is_control() || c == '\\' || c == '"' || !c.is_ascii() { ' ' } else { c }).collect()
}
