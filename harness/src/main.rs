//! acbverif - conformance harness binding the TLA+ specification in /verif/spec to tsiemens/acb.
//!
//! Sub-commands turn cases (from TLC or from the seeded drivers here) into real inputs, drive
//! the real code, and log ndjson traces that TLC validates against the specification.

mod crash;
mod csvrt;
mod etrade;
mod fe;
mod fmv;
mod gen;
mod ledger;
mod model;
mod pairs;
mod proc;
mod qt;
mod rates;
mod report;

use std::io::{BufRead, BufWriter, Write};

use model::Case;

fn arg(args: &[String], name: &str) -> Option<String> {
    args.iter().position(|a| a == name).and_then(|i| args.get(i + 1).cloned())
}

fn read_cases(path: &str) -> Vec<Case> {
    let f = std::fs::File::open(path).unwrap_or_else(|e| panic!("open {path}: {e}"));
    let mut v = Vec::new();
    for (n, line) in std::io::BufReader::new(f).lines().enumerate() {
        let line = line.unwrap();
        if line.trim().is_empty() {
            continue;
        }
        match serde_json::from_str::<Case>(&line) {
            Ok(c) => v.push(c),
            Err(e) => {
                eprintln!("acbverif: bad case on line {}: {e}", n + 1);
                std::process::exit(2);
            }
        }
    }
    v
}

fn par_map<T: Sync, R: Send>(items: &[T], threads: usize, f: impl Fn(&T) -> R + Sync) -> Vec<R> {
    let threads = threads.max(1).min(items.len().max(1));
    let chunk = (items.len() + threads - 1) / threads.max(1);
    if chunk == 0 {
        return Vec::new();
    }
    let mut out: Vec<Vec<R>> = Vec::new();
    std::thread::scope(|s| {
        let hs: Vec<_> = items
            .chunks(chunk)
            .map(|c| {
                let f = &f;
                s.spawn(move || c.iter().map(|x| f(x)).collect::<Vec<R>>())
            })
            .collect();
        for h in hs {
            out.push(h.join().expect("worker thread"));
        }
    });
    out.into_iter().flatten().collect()
}

fn main() {
    let args: Vec<String> = std::env::args().collect();
    if args.len() < 2 {
        eprintln!("usage: acbverif <ledger-gen|ledger-run|...> [options]");
        std::process::exit(2);
    }
    // panics of the code under test are data: keep them off stderr, they are logged in the trace
    // panics of the code under test are data (caught and recorded); only report those of the harness itself
    std::panic::set_hook(Box::new(|info| {
        let at = info.location().map(|l| l.file().to_string()).unwrap_or_default();
        if at.starts_with("src/") && !at.contains("/repo/") && std::env::var("ACBVERIF_QUIET").is_err() {
            eprintln!("acbverif: harness panic: {info}");
        }
    }));
    let threads: usize = arg(&args, "--threads").and_then(|s| s.parse().ok()).unwrap_or(8);
    match args[1].as_str() {
        "ledger-gen" => {
            let seed: u64 = arg(&args, "--seed").and_then(|s| s.parse().ok()).unwrap_or(1);
            let n: u64 = arg(&args, "--n").and_then(|s| s.parse().ok()).unwrap_or(100);
            let profile = gen::Profile::parse(&arg(&args, "--profile").unwrap_or("arith".into())).expect("profile");
            let out = arg(&args, "--out").expect("--out");
            let mut w = BufWriter::new(std::fs::File::create(out).unwrap());
            for k in 0..n {
                let c = gen::gen_case(seed, k, profile);
                writeln!(w, "{}", serde_json::to_string(&c).unwrap()).unwrap();
            }
        }
        "ledger-run" => {
            let mut cases = read_cases(&arg(&args, "--in").expect("--in"));
            let out = arg(&args, "--out").expect("--out");
            // single-file cases are also offered cut into two files (the same concatenation, so the same
            // read order): where possible between two rows settling on the same day
            let mut cut_variants = Vec::new();
            for (n, c) in cases.iter().enumerate() {
                if c.files.len() == 1 && c.files[0].len() >= 2 && c.raw.is_empty() && n % 2 == 0 {
                    let rows = &c.files[0];
                    let same_day: Vec<usize> = (1..rows.len()).filter(|&k| rows[k].sd == rows[k - 1].sd).collect();
                    let cut = if !same_day.is_empty() { same_day[n % same_day.len()] } else { 1 + n % (rows.len() - 1) };
                    let mut v = c.clone();
                    v.id = format!("{}~cut{}", c.id, cut);
                    v.files = vec![rows[..cut].to_vec(), rows[cut..].to_vec()];
                    if n % 4 == 0 && rows.len() - cut >= 2 {
                        // ... or into three
                        let cut2 = cut + 1 + (n / 4) % (rows.len() - cut - 1);
                        v.files = vec![rows[..cut].to_vec(), rows[cut..cut2].to_vec(), rows[cut2..].to_vec()];
                    }
                    v.hdr = Vec::new();
                    cut_variants.push(v);
                }
            }
            cases.extend(cut_variants);
            let segs = par_map(&cases, threads, |c| ledger::ledger_segments(c));
            let mut w = BufWriter::new(std::fs::File::create(out).unwrap());
            let mut n = 0usize;
            for sv in segs {
                for s in sv {
                    writeln!(w, "{}", serde_json::to_string(&s).unwrap()).unwrap();
                    n += 1;
                }
            }
            println!("segments {n}");
        }
        "rates-gen" => {
            let seed: u64 = arg(&args, "--seed").and_then(|s| s.parse().ok()).unwrap_or(1);
            let n: u64 = arg(&args, "--n").and_then(|s| s.parse().ok()).unwrap_or(100);
            let out = arg(&args, "--out").expect("--out");
            let mut w = BufWriter::new(std::fs::File::create(out).unwrap());
            for k in 0..n {
                writeln!(w, "{}", serde_json::to_string(&rates::gen_rates_case(seed, k)).unwrap()).unwrap();
            }
        }
        "cache-child" => {
            crash::child_main(&arg(&args, "--case").expect("--case"), &arg(&args, "--dir").expect("--dir"));
        }
        "cache-crash" => {
            let seed: u64 = arg(&args, "--seed").and_then(|s| s.parse().ok()).unwrap_or(1);
            let thorough = args.iter().any(|a| a == "--thorough");
            let out = arg(&args, "--out").expect("--out");
            let scratch = std::path::PathBuf::from(arg(&args, "--scratch").expect("--scratch"));
            std::fs::create_dir_all(&scratch).unwrap();
            let exe = std::env::current_exe().unwrap();
            let plans = crash::plans(seed, thorough);
            let recs = par_map(&plans, threads, |p| crash::crash_records(p, &scratch, &exe, &crash::interposer_path()));
            let mut w = BufWriter::new(std::fs::File::create(out).unwrap());
            let mut n = 0;
            for rv in recs {
                for r in rv {
                    writeln!(w, "{}", serde_json::to_string(&r).unwrap()).unwrap();
                    n += 1;
                }
            }
            println!("crash points {n}");
        }
        "det-run" => {
            let cases = read_cases(&arg(&args, "--in").expect("--in"));
            let out = arg(&args, "--out").expect("--out");
            let seeds: u64 = arg(&args, "--seeds").and_then(|s| s.parse().ok()).unwrap_or(8);
            let scratch = std::path::PathBuf::from(arg(&args, "--scratch").expect("--scratch"));
            std::fs::create_dir_all(&scratch).unwrap();
            let recs = par_map(&cases, threads, |c| proc::det_records(c, &scratch, seeds));
            let mut w = BufWriter::new(std::fs::File::create(out).unwrap());
            let mut n = 0;
            for rv in recs {
                for r in rv {
                    writeln!(w, "{}", serde_json::to_string(&r).unwrap()).unwrap();
                    n += 1;
                }
            }
            println!("determinism records {n}");
        }
        "csv-roundtrip" => {
            // input: abstract transaction lists emitted by MC_CsvFormat (one JSON object per line)
            let inp = arg(&args, "--in").expect("--in");
            let out = arg(&args, "--out").expect("--out");
            let seed: u64 = arg(&args, "--seed").and_then(|s| s.parse().ok()).unwrap_or(1);
            let reps: u64 = arg(&args, "--reps").and_then(|s| s.parse().ok()).unwrap_or(1);
            let mut cases: Vec<(u64, serde_json::Value)> = Vec::new();
            for (n, line) in std::io::BufReader::new(std::fs::File::open(&inp).unwrap()).lines().enumerate() {
                let line = line.unwrap();
                if !line.trim().is_empty() {
                    for r in 0..reps {
                        cases.push((n as u64 * reps + r, serde_json::from_str(&line).unwrap()));
                    }
                }
            }
            let recs = par_map(&cases, threads, |(n, c)| csvrt::roundtrip_record(c, *n, seed));
            let mut w = BufWriter::new(std::fs::File::create(out).unwrap());
            for r in &recs {
                writeln!(w, "{}", serde_json::to_string(r).unwrap()).unwrap();
            }
            println!("csv round trips {}", recs.len());
        }
        "etrade-run" => {
            let out = arg(&args, "--out").expect("--out");
            let seed: u64 = arg(&args, "--seed").and_then(|s| s.parse().ok()).unwrap_or(1);
            let scratch = std::path::PathBuf::from(arg(&args, "--scratch").expect("--scratch"));
            std::fs::create_dir_all(&scratch).unwrap();
            let mut cases: Vec<(u64, serde_json::Value)> = Vec::new();
            if let Some(inp) = arg(&args, "--in") {
                for (n, line) in std::io::BufReader::new(std::fs::File::open(&inp).unwrap()).lines().enumerate() {
                    let line = line.unwrap();
                    if !line.trim().is_empty() {
                        cases.push((n as u64, serde_json::from_str(&line).unwrap()));
                    }
                }
            }
            if let Some(g) = arg(&args, "--gen") {
                let g: u64 = g.parse().unwrap();
                for k in 0..g {
                    cases.push((1_000_000 + k, etrade::gen_etrade_case(seed, k)));
                }
            }
            let recs = par_map(&cases, threads, |(n, c)| etrade::etrade_record(c, *n, &scratch));
            let mut w = BufWriter::new(std::fs::File::create(out).unwrap());
            for r in &recs {
                writeln!(w, "{}", serde_json::to_string(r).unwrap()).unwrap();
            }
            println!("etrade scenarios {}", recs.len());
        }
        "fmv-run" => {
            // --in: tables (MC_Fmv) and page / statement cases (MC_PageIter); --gen N: seeded random (page count, hints)
            let out = arg(&args, "--out").expect("--out");
            let seed: u64 = arg(&args, "--seed").and_then(|s| s.parse().ok()).unwrap_or(1);
            let scratch = std::path::PathBuf::from(arg(&args, "--scratch").expect("--scratch"));
            std::fs::create_dir_all(&scratch).unwrap();
            let mut cases: Vec<(u64, serde_json::Value)> = Vec::new();
            if let Some(inp) = arg(&args, "--in") {
                for (n, line) in std::io::BufReader::new(std::fs::File::open(&inp).unwrap()).lines().enumerate() {
                    let line = line.unwrap();
                    if !line.trim().is_empty() {
                        cases.push((n as u64, serde_json::from_str(&line).unwrap()));
                    }
                }
            }
            if let Some(g) = arg(&args, "--gen") {
                let g: u64 = g.parse().unwrap();
                for k in 0..g {
                    cases.push((1_000_000 + k, fmv::gen_pages_case(seed, k)));
                }
            }
            let recs = par_map(&cases, threads, |(n, c)| match c["kind"].as_str().unwrap_or("tab") {
                "pages" => fmv::pages_record(c, *n),
                "stmt" => fmv::stmt_record(c, *n, &scratch),
                _ => fmv::table_record(c, *n, seed),
            });
            let mut w = BufWriter::new(std::fs::File::create(out).unwrap());
            for r in &recs {
                writeln!(w, "{}", serde_json::to_string(r).unwrap()).unwrap();
            }
            println!("fmv cases {}", recs.len());
        }
        "fe-run" => {
            // --in: abstract front-end inputs emitted by MC_FrontEnd; --gen N: seeded random products and byte-level damage
            let out = arg(&args, "--out").expect("--out");
            let seed: u64 = arg(&args, "--seed").and_then(|s| s.parse().ok()).unwrap_or(1);
            let scratch = std::path::PathBuf::from(arg(&args, "--scratch").expect("--scratch"));
            std::fs::create_dir_all(&scratch).unwrap();
            let mut cases: Vec<(u64, serde_json::Value)> = Vec::new();
            if let Some(inp) = arg(&args, "--in") {
                for (n, line) in std::io::BufReader::new(std::fs::File::open(&inp).unwrap()).lines().enumerate() {
                    let line = line.unwrap();
                    if !line.trim().is_empty() {
                        cases.push((n as u64, serde_json::from_str(&line).unwrap()));
                    }
                }
            }
            if let Some(g) = arg(&args, "--gen") {
                let g: u64 = g.parse().unwrap();
                for k in 0..g {
                    cases.push((1_000_000 + k, fe::gen_fe_case(seed, k)));
                }
            }
            if args.iter().any(|a| a == "--qt-cells") {
                for (k, c) in fe::qt_cell_cases(seed).into_iter().enumerate() {
                    cases.push((3_000_000 + k as u64, c));
                }
            }
            if args.iter().any(|a| a == "--etrade-lines") {
                for (k, c) in fe::etrade_line_cases().into_iter().enumerate() {
                    cases.push((2_000_000 + k as u64, c));
                }
            }
            let recs = par_map(&cases, threads, |(n, c)| fe::fe_record(c, *n, &scratch));
            let mut w = BufWriter::new(std::fs::File::create(out).unwrap());
            for r in &recs {
                writeln!(w, "{}", serde_json::to_string(r).unwrap()).unwrap();
            }
            println!("front-end runs {}", recs.len());
        }
        "qt-run" => {
            // --in: sheets emitted by MC_Questrade; --gen N: seeded random exports instead
            let out = arg(&args, "--out").expect("--out");
            let seed: u64 = arg(&args, "--seed").and_then(|s| s.parse().ok()).unwrap_or(1);
            let mut cases: Vec<(u64, serde_json::Value)> = Vec::new();
            if let Some(inp) = arg(&args, "--in") {
                for (n, line) in std::io::BufReader::new(std::fs::File::open(&inp).unwrap()).lines().enumerate() {
                    let line = line.unwrap();
                    if !line.trim().is_empty() {
                        cases.push((n as u64, serde_json::from_str(&line).unwrap()));
                    }
                }
            }
            if let Some(g) = arg(&args, "--gen") {
                let g: u64 = g.parse().unwrap();
                for k in 0..g {
                    cases.push((1_000_000 + k, qt::gen_qt_case(seed, k)));
                }
            }
            let mut recs = par_map(&cases, threads, |(n, c)| qt::qt_record(c, *n));
            if let Some(k) = arg(&args, "--opts") {
                // additionally push the first k sheets through the real binary as .xlsx with option combinations
                let k: usize = k.parse().unwrap();
                let scratch = std::path::PathBuf::from(arg(&args, "--scratch").expect("--scratch"));
                std::fs::create_dir_all(&scratch).unwrap();
                let sub: Vec<(u64, serde_json::Value)> = cases.iter().take(k).cloned().collect();
                recs.extend(par_map(&sub, threads, |(n, c)| qt::qt_opts_record(c, *n, &scratch)));
            }
            let mut w = BufWriter::new(std::fs::File::create(out).unwrap());
            for r in &recs {
                writeln!(w, "{}", serde_json::to_string(r).unwrap()).unwrap();
            }
            println!("questrade sheets {}", recs.len());
        }
        "rowrates" => {
            let seed: u64 = arg(&args, "--seed").and_then(|s| s.parse().ok()).unwrap_or(1);
            let n: u64 = arg(&args, "--n").and_then(|s| s.parse().ok()).unwrap_or(100);
            let out = arg(&args, "--out").expect("--out");
            let cases: Vec<rates::RowRatesCase> = (0..n).map(|k| rates::gen_rowrates_case(seed, k)).collect();
            let segs = par_map(&cases, threads, |c| rates::rowrates_segment(c));
            let mut w = BufWriter::new(std::fs::File::create(out).unwrap());
            for s in &segs {
                writeln!(w, "{}", serde_json::to_string(s).unwrap()).unwrap();
            }
            println!("rowrate segments {}", segs.len());
        }
        "rates-run" => {
            // --from-mc: the input lines are behaviours emitted by MC_Rates over the window calendar
            let from_mc = args.iter().any(|a| a == "--from-mc");
            let inp = arg(&args, "--in").expect("--in");
            let out = arg(&args, "--out").expect("--out");
            let scratch = std::path::PathBuf::from(arg(&args, "--scratch").expect("--scratch"));
            std::fs::create_dir_all(&scratch).unwrap();
            let mut cases: Vec<rates::RatesCase> = Vec::new();
            for (n, line) in std::io::BufReader::new(std::fs::File::open(&inp).unwrap()).lines().enumerate() {
                let line = line.unwrap();
                if line.trim().is_empty() {
                    continue;
                }
                if from_mc {
                    cases.push(rates::case_from_model(&serde_json::from_str(&line).unwrap(), n));
                } else {
                    cases.push(serde_json::from_str(&line).unwrap());
                }
            }
            let segs = par_map(&cases, threads, |c| rates::rates_segment(c, &scratch));
            let mut w = BufWriter::new(std::fs::File::create(out).unwrap());
            for s in &segs {
                writeln!(w, "{}", serde_json::to_string(s).unwrap()).unwrap();
            }
            println!("rate segments {}", segs.len());
        }
        "report-run" => {
            let cases = read_cases(&arg(&args, "--in").expect("--in"));
            let out = arg(&args, "--out").expect("--out");
            let recs = par_map(&cases, threads, |c| report::report_record(c));
            let mut w = BufWriter::new(std::fs::File::create(out).unwrap());
            for r in &recs {
                writeln!(w, "{}", serde_json::to_string(r).unwrap()).unwrap();
            }
            eprintln!("reports {}", recs.len());
        }
        "pairs" => {
            // --kind opening|split : derive paired executions from base cases; writes the pair records
            // (for Trace_Pair) and, separately, every recorded segment (for Trace_Ledger)
            let kind = arg(&args, "--kind").expect("--kind");
            let seed: u64 = arg(&args, "--seed").and_then(|s| s.parse().ok()).unwrap_or(1);
            let cases = read_cases(&arg(&args, "--in").expect("--in"));
            let out = arg(&args, "--out").expect("--out");
            let segs_out = arg(&args, "--segments").expect("--segments");
            let recs = par_map(&cases, threads, |c| match kind.as_str() {
                "opening" => pairs::opening_pairs(c),
                "split" => pairs::split_pairs(c, seed),
                "indep" => pairs::indep_pairs(c),
                "summary" => pairs::summary_pairs(c, seed),
                "layout" => pairs::layout_pairs(c, seed, false),
                "relayout" => pairs::layout_pairs(c, seed.wrapping_add(c.id.len() as u64 * 7919 + c.files.iter().map(|f| f.len() as u64).sum::<u64>()), true),
                _ => panic!("kind"),
            });
            let mut w = BufWriter::new(std::fs::File::create(out).unwrap());
            let mut ws = BufWriter::new(std::fs::File::create(segs_out).unwrap());
            let mut n = 0usize;
            for rv in recs {
                for r in rv {
                    // the relations compare two runs; whether a refusal as "duplicate split entries" was itself
                    // legitimate is judged on the segments (Trace_Ledger), where the status stays `dupsplit`
                    let mut rp = r.clone();
                    for k in ["a", "b"] {
                        if rp[k]["status"] == "dupsplit" {
                            rp[k]["status"] = serde_json::json!("skipped");
                        }
                    }
                    writeln!(w, "{}", serde_json::to_string(&rp).unwrap()).unwrap();
                    // (a pair whose second half is a bare failure notice carries no ledger to validate)
                    if r["kind"] != "aggsum" && r["b"]["sec"] != "*" {
                        writeln!(ws, "{}", serde_json::to_string(&r["a"]).unwrap()).unwrap();
                        writeln!(ws, "{}", serde_json::to_string(&r["b"]).unwrap()).unwrap();
                    }
                    n += 1;
                }
            }
            println!("pairs {n}");
        }
        other => {
            eprintln!("acbverif: unknown sub-command {other}");
            std::process::exit(2);
        }
    }
}
