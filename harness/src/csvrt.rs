//! Property C11: instantiate the abstract transactions TLC enumerates (spec/CsvFormat.tla) with
//! concrete values of every shape, push them through acb's real CSV writer and reader
//! (`write_txs_to_csv` -> `parse_tx_csv` -> `Tx::try_from`), write the re-read list again, and log
//! both lists and whether the two texts are byte-identical.

use acb::portfolio::io::tx_csv::{parse_tx_csv, write_txs_to_csv, TxCsvParseOptions};
use acb::portfolio::{
    Affiliate, CsvTx, Currency, SFLInput, SplitRatio, Tx, TxAction, TxActionSpecifics,
};
use acb::util::rw::{DescribedReader, WriteHandle};
use rand::rngs::StdRng;
use rand::{Rng, SeedableRng};
use rust_decimal::Decimal;
use serde_json::{json, Value};
use std::str::FromStr;

use crate::ledger::panic_text;
use crate::model::*;

fn dec_for(class: &str, k: u64, rng: &mut StdRng) -> Decimal {
    match class {
        "int" => Decimal::from(rng.gen_range(1..5000u32)),
        "zeros" => Decimal::from_str(&format!("{}.{}00", rng.gen_range(1..900), rng.gen_range(1..9))).unwrap(),
        "long" => Decimal::from_str(&format!("{}.{:018}{}", rng.gen_range(1..99999), rng.gen_range(1..999_999_999_999_999_999u64), 1 + k % 9)).unwrap(),
        "tiny" => Decimal::from_str("0.0000000001").unwrap() * Decimal::from(rng.gen_range(1..9u32)),
        _ => Decimal::from(7),
    }
}

const MEMOS_TRICKY: [&str; 8] = [
    "a, b and \"c\"", "line one\nline two", "  padded  ", "caf\u{e9} \u{2014} r\u{e9}sum\u{e9}", "ends with quote\"", ",", "tab\there", "'single' ; semi",
];

fn affiliate_for(a: &str, rng: &mut StdRng) -> Option<Affiliate> {
    let spell = |opts: &[&str], rng: &mut StdRng| opts[rng.gen_range(0..opts.len())].to_string();
    Some(Affiliate::from_strep(&match a {
        "default" => spell(&["", "Default", "default"], rng),
        "default (R)" => spell(&["(R)", "default (r)", "Default (R)"], rng),
        "spouse" => spell(&["Spouse", " spouse ", "SPOUSE"], rng),
        "spouse (R)" => spell(&["Spouse (R)", " spouse  (R) ", "spouse(r)"], rng),
        // an affiliate of its own whose name merely begins like the default one's
        "default spouse" => spell(&["Default Spouse", "default spouse", "Defaulter"], rng),
        "global" => return Some(Affiliate::global()),
        other => other.to_string(),
    }))
}

pub fn csvtx_from_abstract(t: &Value, k: u64, rng: &mut StdRng) -> CsvTx {
    let act = t["act"].as_str().unwrap();
    let dc = t["dec"].as_str().unwrap();
    let mut c = CsvTx::default();
    c.security = Some(["FOO", "BAR.TO", "X Y"][rng.gen_range(0..3)].to_string());
    let day = 17000 + rng.gen_range(0..2500);
    c.trade_date = Some(date_of(day));
    c.settlement_date = Some(date_of(day + rng.gen_range(0..4)));
    c.action = Some(match act {
        "Buy" => TxAction::Buy,
        "Sell" => TxAction::Sell,
        "RoC" => TxAction::Roc,
        "SfLA" => TxAction::Sfla,
        _ => TxAction::Split,
    });
    c.affiliate = affiliate_for(t["af"].as_str().unwrap(), rng);
    let cur = t["cur"].as_str().unwrap();
    match act {
        "Buy" | "Sell" => {
            c.shares = Some(dec_for(dc, k, rng));
            c.amount_per_share = Some(dec_for(dc, k + 1, rng));
            c.commission = Some(if rng.gen_bool(0.3) { Decimal::ZERO } else { dec_for(dc, k + 2, rng) });
            c.tx_currency = Some(Currency::new(cur));
            if cur != "CAD" {
                c.tx_curr_to_local_exchange_rate = Some(dec_for(if dc == "tiny" { "zeros" } else { dc }, k + 3, rng));
            }
            match t["ccur"].as_str().unwrap() {
                "CAD" => c.commission_currency = Some(Currency::cad()),
                "USD" => {
                    c.commission_currency = Some(Currency::usd());
                    c.commission_curr_to_local_exchange_rate = Some(dec_for("zeros", k + 4, rng));
                }
                _ => {}
            }
        }
        "RoC" => {
            c.amount_per_share = Some(dec_for(dc, k, rng));
            c.tx_currency = Some(Currency::new(cur));
            if cur != "CAD" {
                c.tx_curr_to_local_exchange_rate = Some(dec_for("zeros", k + 3, rng));
            }
        }
        "SfLA" => {
            c.shares = Some(dec_for(dc, k, rng));
            c.amount_per_share = Some(dec_for(dc, k + 1, rng));
        }
        _ => {
            c.stock_split_ratio = Some(SplitRatio::parse(t["ratio"].as_str().unwrap()).unwrap());
        }
    }
    c.specified_superficial_loss = match t["sfl"].as_str().unwrap() {
        "val" => Some(SFLInput::req_from_dec(-dec_for(dc, k + 5, rng), false)),
        "val!" => Some(SFLInput::req_from_dec(-dec_for(dc, k + 5, rng), true)),
        "zero" => Some(SFLInput::req_from_dec(Decimal::ZERO, false)),
        "zero!" => Some(SFLInput::req_from_dec(Decimal::ZERO, true)),
        _ => None,
    };
    c.memo = match t["memo"].as_str().unwrap() {
        "empty" => None,
        "plain" => Some(format!("memo {}", k)),
        _ => Some(MEMOS_TRICKY[rng.gen_range(0..MEMOS_TRICKY.len())].to_string()),
    };
    c
}

fn tx_json(tx: &Tx) -> Value {
    let (act, q, p, c, cur, r, ccur, rc, sfl, force, hassfl, ratio) = match &tx.action_specifics {
        TxActionSpecifics::Buy(b) => ("Buy", *b.shares, *b.amount_per_share, *b.commission, b.tx_currency_and_rate.currency.to_string(), *b.tx_currency_and_rate.exchange_rate,
            b.separate_commission_currency.as_ref().map(|x| x.currency.to_string()).unwrap_or_default(), b.separate_commission_currency.as_ref().map(|x| *x.exchange_rate).unwrap_or(Decimal::ZERO),
            Decimal::ZERO, false, false, String::new()),
        TxActionSpecifics::Sell(b) => ("Sell", *b.shares, *b.amount_per_share, *b.commission, b.tx_currency_and_rate.currency.to_string(), *b.tx_currency_and_rate.exchange_rate,
            b.separate_commission_currency.as_ref().map(|x| x.currency.to_string()).unwrap_or_default(), b.separate_commission_currency.as_ref().map(|x| *x.exchange_rate).unwrap_or(Decimal::ZERO),
            b.specified_superficial_loss.as_ref().map(|s| *s.superficial_loss).unwrap_or(Decimal::ZERO),
            b.specified_superficial_loss.as_ref().map(|s| s.force).unwrap_or(false), b.specified_superficial_loss.is_some(), String::new()),
        TxActionSpecifics::Roc(x) => ("RoC", Decimal::ZERO, *x.amount_per_held_share, Decimal::ZERO, x.tx_currency_and_rate.currency.to_string(), *x.tx_currency_and_rate.exchange_rate,
            String::new(), Decimal::ZERO, Decimal::ZERO, false, false, String::new()),
        TxActionSpecifics::Sfla(x) => ("SfLA", *x.shares_affected, *x.amount_per_share, Decimal::ZERO, "CAD".to_string(), Decimal::ONE, String::new(), Decimal::ZERO, Decimal::ZERO, false, false, String::new()),
        TxActionSpecifics::Split(x) => ("Split", Decimal::ZERO, Decimal::ZERO, Decimal::ZERO, "CAD".to_string(), Decimal::ONE, String::new(), Decimal::ZERO, Decimal::ZERO, false, false,
            format!("{}|{}|{}", x.ratio.post_split.normalize(), x.ratio.pre_split.normalize(), x.ratio.reverse_integer_only)),
    };
    json!({"sec": tx.security, "td": day_of(tx.trade_date), "sd": day_of(tx.settlement_date), "act": act, "af": tx.affiliate.id(),
           "q": dj(&q), "p": dj(&p), "c": dj(&c), "cur": cur, "r": dj(&r), "ccur": ccur, "rc": dj(&rc),
           "hasSfl": hassfl, "sfl": dj(&sfl), "force": force, "ratio": ratio, "memo": crate::ledger::clean(tx.memo.trim()), "memoLen": tx.memo.trim().chars().count(), "memoPadded": tx.memo.trim() != tx.memo})
}

fn parse_back(text: &str) -> Result<Vec<Tx>, String> {
    let mut rd = DescribedReader::from_string("rt.csv".into(), text.to_string());
    let csvtxs = parse_tx_csv(&mut rd, 0, &TxCsvParseOptions::default(), &mut WriteHandle::empty_write_handle())?;
    csvtxs.into_iter().map(Tx::try_from).collect()
}

pub fn roundtrip_record(case: &Value, n: u64, seed: u64) -> Value {
    let mut rng = StdRng::seed_from_u64(seed.wrapping_mul(31).wrapping_add(n));
    let abs = case["txs"].as_array().unwrap();
    let res = std::panic::catch_unwind(std::panic::AssertUnwindSafe(|| -> Result<Value, String> {
        let csvtxs: Vec<CsvTx> = abs.iter().enumerate().map(|(k, t)| csvtx_from_abstract(t, k as u64 * 10, &mut rng)).collect();
        let orig: Vec<Tx> = csvtxs.iter().cloned().map(Tx::try_from).collect::<Result<_, _>>().map_err(|e| format!("instantiation is not a valid transaction: {e}"))?;
        let to_csv = |txs: &Vec<Tx>| -> Result<String, String> {
            let c: Vec<CsvTx> = txs.iter().cloned().map(CsvTx::from).collect();
            let mut buf: Vec<u8> = Vec::new();
            write_txs_to_csv(&c, &mut buf).map_err(|e| e.to_string())?;
            String::from_utf8(buf).map_err(|e| e.to_string())
        };
        let text1 = to_csv(&orig)?;
        let back = parse_back(&text1).map_err(|e| format!("re-reading failed: {e}"))?;
        let text2 = to_csv(&back)?;
        Ok(json!({"status": "ok", "msg": "", "orig": orig.iter().map(tx_json).collect::<Vec<_>>(), "back": back.iter().map(tx_json).collect::<Vec<_>>(),
                  "sameBytes": text1 == text2, "header": text1.lines().next().unwrap_or(""), "bytes": text1.len(), "text": crate::ledger::clean(&text1.chars().take(400).collect::<String>())}))
    }));
    let mut rec = match res {
        Ok(Ok(v)) => v,
        Ok(Err(e)) => json!({"status": if e.starts_with("instantiation") { "skipped" } else { "error" }, "msg": crate::ledger::clean(&e), "orig": [], "back": [], "sameBytes": false, "header": "", "bytes": 0, "text": ""}),
        Err(p) => json!({"status": "panic", "msg": crate::ledger::clean(&panic_text(p)), "orig": [], "back": [], "sameBytes": false, "header": "", "bytes": 0, "text": ""}),
    };
    rec["id"] = json!(format!("csv-{}", n));
    rec["abstract"] = case["txs"].clone();
    rec
}
