// The repository's own `etrade-plan-pdf-tx-extract` main.
include!("/repo/src/bin/etrade_plan_pdf_tx_extract.rs");
