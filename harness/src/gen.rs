//! Seeded random drivers producing ledger histories (cases) for trace validation.
//!
//! The drivers keep a rough model of the holdings only to steer towards interesting, mostly
//! valid histories (sales that fit, loss sales with acquisitions around them); they compute no
//! expected result - the TLA+ specification is the only oracle.

use std::collections::BTreeMap;

use rand::rngs::StdRng;
use rand::seq::SliceRandom;
use rand::{Rng, SeedableRng};
use rust_decimal::Decimal;
use serde_json::json;

use crate::model::*;

#[derive(Clone, Copy, PartialEq, Eq, Debug)]
pub enum Profile {
    Arith,    // C01: currencies, commissions, fractional shares, RoC/SfLA/splits, registered
    Sfl,      // C02: loss sales with acquisitions at window-edge offsets, manual SFL
    Conserve, // C03: several non-registered buyers in the window, no manual SFL
    Reject,   // C04: borderline invalid rows
    Split,    // C15: histories with splits of terminating ratios
    Costs,    // C17: several securities, several settlements per day, buy+sell everything in a day, long gaps
    Totals,   // C06: several securities and years, trades straddling a year end, figures ending in half cents
    Opening,  // C16: always an opening position (zero / fractional shares, zero cost), other affiliates, global splits
}

impl Profile {
    pub fn parse(s: &str) -> Option<Profile> {
        Some(match s {
            "arith" => Profile::Arith,
            "sfl" => Profile::Sfl,
            "conserve" => Profile::Conserve,
            "reject" => Profile::Reject,
            "split" => Profile::Split,
            "opening" => Profile::Opening,
            "costs" => Profile::Costs,
            "totals" => Profile::Totals,
            _ => return None,
        })
    }
}

fn dec(m: i64, e: u32) -> Decimal {
    Decimal::new(m, e)
}

fn num(d: Decimal) -> Num {
    Num::S(d.normalize().to_string())
}

struct Hold {
    sh: BTreeMap<String, Decimal>, // by affiliate id
}

const GAPS_EDGE: [i64; 14] = [0, 0, 0, 1, 1, 2, 28, 29, 30, 30, 31, 31, 32, 3];
const GAPS_WIDE: [i64; 10] = [0, 1, 2, 5, 9, 17, 29, 31, 45, 120];
const GAPS_COSTS: [i64; 10] = [0, 0, 0, 0, 1, 1, 3, 40, 200, 400];

pub fn gen_case(seed: u64, k: u64, profile: Profile) -> Case {
    let mut rng = StdRng::seed_from_u64(seed.wrapping_mul(0x9E37_79B9_7F4A_7C15).wrapping_add(k));
    let secs: Vec<&str> = match rng.gen_range(0..10) {
        0..=6 if matches!(profile, Profile::Costs | Profile::Totals) => vec!["FOO", "BAR"],
        0..=6 => vec!["FOO"],
        7..=8 => vec!["FOO", "BAR"],
        _ => vec!["FOO", "BAR", "XYZ.TO"],
    };
    let af_pool: Vec<&str> = match profile {
        Profile::Conserve => vec!["", "Spouse", "Kid", "Default"],
        Profile::Costs => vec!["", "Default", "Spouse", "(R)"],
        Profile::Sfl | Profile::Split => vec!["", "Spouse", "Spouse (R)", "(R)", "Default"],
        _ => vec!["", "Spouse", "spouse", "Kid (R)", "(R)", "Default", " Spouse  (r)"],
    };
    let naf = rng.gen_range(1..=af_pool.len().min(4));
    let mut afs: Vec<&str> = af_pool.clone();
    afs.shuffle(&mut rng);
    afs.truncate(naf);
    if profile == Profile::Opening && rng.gen_bool(0.4) {
        // the default affiliate holds the opening shares but has no rows of its own
        afs.retain(|a| affiliate_id(a).0 != "default");
        if afs.is_empty() {
            afs.push("Spouse");
        }
    } else if !afs.iter().any(|a| !affiliate_id(a).1) {
        afs.push("");
    }

    let mut rows: Vec<Row> = Vec::new();
    let mut opening = BTreeMap::new();
    for sec in &secs {
        let mut hold = Hold { sh: BTreeMap::new() };
        if profile != Profile::Conserve && (profile == Profile::Opening || rng.gen_bool(0.2)) {
            let n = if profile == Profile::Opening && rng.gen_bool(0.1) { Decimal::ZERO } else { pick_shares(&mut rng, true) };
            let c = if rng.gen_bool(0.15) || n.is_zero() { Decimal::ZERO } else { dec(rng.gen_range(0..500_000), 2) };
            opening.insert(sec.to_string(), (num(n), num(c)));
            hold.sh.insert("default".into(), n);
        }
        let n_rows = match profile {
            Profile::Arith => rng.gen_range(3..40),
            _ => rng.gen_range(3..16),
        };
        let mut day: i64 = 16436 + rng.gen_range(0..3000); // 2015..2023
        let mut last_price = dec(rng.gen_range(100..20_000), 2);
        for _ in 0..n_rows {
            let gaps: &[i64] = match profile {
                Profile::Arith | Profile::Totals => &GAPS_WIDE,
                Profile::Costs => &GAPS_COSTS,
                _ => &GAPS_EDGE,
            };
            day += *gaps.choose(&mut rng).unwrap();
            let mut straddle = false;
            if profile == Profile::Totals && rng.gen_bool(0.2) {
                // settle on Jan 2 of the next year, trade on Dec 30
                let y = date_of(day).year();
                day = day_of(time::Date::from_calendar_date(y + 1, time::Month::January, 2).unwrap());
                straddle = true;
            }
            let af = if profile == Profile::Costs && rng.gen_bool(0.6) { "" } else { *afs.choose(&mut rng).unwrap() };
            let (afid, reg) = affiliate_id(af);
            let held = hold.sh.get(&afid).cloned().unwrap_or(Decimal::ZERO);
            let total: Decimal = hold.sh.values().cloned().sum();
            let roll = rng.gen_range(0..100);
            let td = if straddle { day - 3 } else { day - [0, 0, 1, 2, 3][rng.gen_range(0..5)] };
            let mut row = Row {
                sec: sec.to_string(),
                td,
                sd: day,
                act: String::new(),
                af: af.to_string(),
                q: Num::default(),
                p: Num::default(),
                c: Num::default(),
                cur: String::new(),
                r: Num::default(),
                ccur: String::new(),
                rc: Num::default(),
                sfl: String::new(),
                split: String::new(),
                memo: String::new(),
            };
            // (a residue below 1e-10 shares, left by typed quantities after a split into thirds, is not sold)
            let want_sell = held >= Decimal::new(1, 10) && roll < 45;
            if want_sell {
                row.act = ["Sell", "sell", "SELL"][rng.gen_range(0..3)].into();
                let q = pick_sell(&mut rng, held, profile);
                // bias towards losses in the SFL-centred profiles
                let down = matches!(profile, Profile::Sfl | Profile::Conserve | Profile::Split) && rng.gen_bool(0.7);
                let price = if down {
                    (last_price * dec(rng.gen_range(30..95), 2)).round_dp(4)
                } else {
                    (last_price * dec(rng.gen_range(60..180), 2)).round_dp(4)
                };
                row.q = num(q);
                row.p = num(price);
                set_money(&mut rng, &mut row, profile);
                if profile == Profile::Sfl && !reg && rng.gen_bool(0.12) {
                    // a manual SFL; the value is a guess, the spec decides what must happen
                    let v = if rng.gen_bool(0.35) { Decimal::ZERO } else { dec(rng.gen_range(0..20_000), 2) };
                    row.sfl = format!("{}{}{}", if v.is_zero() { "" } else { "-" }, v.normalize(), if rng.gen_bool(0.3) { "!" } else { "" });
                }
                if q <= held {
                    hold.sh.insert(afid.clone(), held - q);
                }
            } else if roll < 80 || total.is_zero() {
                row.act = ["Buy", "buy"][rng.gen_range(0..2)].into();
                let q = pick_shares(&mut rng, profile == Profile::Arith);
                last_price = (last_price * dec(rng.gen_range(70..140), 2)).round_dp(4).max(dec(1, 2));
                row.q = num(q);
                row.p = num(last_price);
                set_money(&mut rng, &mut row, profile);
                hold.sh.insert(afid.clone(), held + q);
            } else if roll < 86 && !reg && profile != Profile::Sfl {
                row.act = "RoC".into();
                // small per-share amount so that it usually fits under the cost base
                row.p = num(dec(rng.gen_range(1..200), 2 + rng.gen_range(0..3)));
                if rng.gen_bool(0.3) {
                    row.cur = "USD".into();
                    row.r = num(dec(rng.gen_range(11000..14500), 4));
                }
                if profile == Profile::Reject && rng.gen_bool(0.3) {
                    row.p = num(dec(rng.gen_range(5000..90000), 2));
                }
            } else if roll < 90 && (!reg || profile == Profile::Reject) && profile != Profile::Conserve && profile != Profile::Sfl {
                row.act = "SfLA".into();
                row.q = num(dec(rng.gen_range(1..50), 0));
                row.p = num(dec(rng.gen_range(1..5000), 2));
            } else if profile != Profile::Conserve || rng.gen_bool(0.5) {
                row.act = "Split".into();
                let global = rng.gen_bool(0.6);
                if global {
                    row.af = String::new();
                }
                let ratios_fwd = ["2-for-1", "4-for-1", "5-for-1", "10-for-1", "5-for-2", "5-for-4", "7-for-3"];
                let ratios_rev = ["1-for-2", "1-for-4", "1-for-5", "2-for-5", "1.0-for-2.0", "1.0-for-4.0", "0.5-for-1", "1.0-for-3.0", "2.0-for-3.0"];
                let fwd = rng.gen_bool(0.6);
                row.split = if fwd { ratios_fwd.choose(&mut rng).unwrap().to_string() } else { ratios_rev.choose(&mut rng).unwrap().to_string() };
                let (post, pre) = split_pair(&row.split);
                let targets: Vec<String> = if global { hold.sh.keys().cloned().collect() } else { vec![afid.clone()] };
                for a in targets {
                    let h = hold.sh.get(&a).cloned().unwrap_or(Decimal::ZERO);
                    hold.sh.insert(a, h * post / pre);
                }
            } else {
                row.act = "Buy".into();
                let q = pick_shares(&mut rng, false);
                row.q = num(q);
                row.p = num(last_price);
                hold.sh.insert(afid.clone(), held + q);
            }
            if profile == Profile::Reject && rng.gen_bool(0.04) && row.act.to_lowercase() == "sell" {
                // oversell by a hair or by a lot
                let over = if rng.gen_bool(0.5) { dec(1, 4) } else { dec(rng.gen_range(1..100), 0) };
                row.q = num(held + over);
            }
            rows.push(row);
        }
    }
    // interleave securities by settlement date order is not required; shuffle rows of different
    // securities while keeping each security's own order (layout independence is C07's business)
    let mut per: BTreeMap<String, Vec<Row>> = BTreeMap::new();
    for r in rows {
        per.entry(r.sec.clone()).or_default().push(r);
    }
    let mut merged: Vec<Row> = Vec::new();
    let mut queues: Vec<std::collections::VecDeque<Row>> = per.into_values().map(|v| v.into()).collect();
    while queues.iter().any(|q| !q.is_empty()) {
        let i = rng.gen_range(0..queues.len());
        if let Some(r) = queues[i].pop_front() {
            merged.push(r);
        }
    }
    // global splits must not sit within a day of affiliate-specific splits (acb refuses such inputs before
    // bookkeeping: Tx!DupSplit); drop the affiliate-specific ones that do.  Two days apart is a valid input
    // and stays.
    let merged = drop_adjacent_specific_splits(with_neighbouring_specific_splits(merged));
    let files = match rng.gen_range(0..10) {
        0..=1 if merged.len() > 2 => {
            let cut = rng.gen_range(1..merged.len());
            vec![merged[..cut].to_vec(), merged[cut..].to_vec()]
        }
        2..=4 if merged.len() > 2 => {
            // rows dealt out over several files (e.g. one export per account): dates interleave
            // across files; the read index is the position in the concatenation
            let nf = rng.gen_range(2..=3);
            let mut fs: Vec<Vec<Row>> = vec![Vec::new(); nf];
            for r in merged {
                let k = rng.gen_range(0..nf);
                fs[k].push(r);
            }
            fs.into_iter().filter(|f| !f.is_empty()).collect()
        }
        _ => vec![merged],
    };
    Case { id: format!("{}-{}-{}", profile_name(profile), seed, k), files, opening, tags: json!({"profile": profile_name(profile)}), hdr: Vec::new(), raw: Vec::new() }
}

pub fn profile_name(p: Profile) -> &'static str {
    match p {
        Profile::Arith => "arith",
        Profile::Sfl => "sfl",
        Profile::Conserve => "conserve",
        Profile::Reject => "reject",
        Profile::Split => "split",
        Profile::Opening => "opening",
        Profile::Costs => "costs",
        Profile::Totals => "totals",
    }
}

fn split_pair(s: &str) -> (Decimal, Decimal) {
    let t: Vec<&str> = s.split("-for-").collect();
    (t[0].parse().unwrap(), t[1].parse().unwrap())
}

/// Next to some splits for all affiliates, a value-neutral split of the default affiliate alone two days
/// before or after: a valid input (the refusal of "duplicate split entries" reaches one day, Tx!DupSplit).
/// Chosen by the date, so the random stream of the other rows is untouched.
fn with_neighbouring_specific_splits(rows: Vec<Row>) -> Vec<Row> {
    let mut out = Vec::with_capacity(rows.len() + 2);
    for r in rows {
        let global = r.act.to_lowercase() == "split" && r.af.trim().is_empty();
        let off = match r.td.rem_euclid(5) {
            0 => 2,
            1 => -2,
            _ => 0,
        };
        if global && off != 0 {
            let mut n = r.clone();
            n.af = "Default".into();
            n.split = "1-for-1".into();
            n.td = r.td + off;
            n.sd = r.sd + off;
            if off < 0 {
                out.push(n);
                out.push(r);
            } else {
                out.push(r);
                out.push(n);
            }
        } else {
            out.push(r);
        }
    }
    out
}

fn drop_adjacent_specific_splits(rows: Vec<Row>) -> Vec<Row> {
    let is_split = |r: &Row| r.act.to_lowercase() == "split";
    let globals: Vec<(String, i64)> = rows.iter().filter(|r| is_split(r) && r.af.trim().is_empty()).map(|r| (r.sec.clone(), r.td)).collect();
    rows.into_iter()
        .filter(|r| {
            if is_split(r) && !r.af.trim().is_empty() {
                !globals.iter().any(|(s, td)| *s == r.sec && (td - r.td).abs() <= 1)
            } else {
                true
            }
        })
        .collect()
}

fn pick_shares(rng: &mut StdRng, fractional: bool) -> Decimal {
    match rng.gen_range(0..10) {
        0..=5 => dec(rng.gen_range(1..200), 0),
        6..=7 => dec(rng.gen_range(1..20) * 50, 0),
        _ if fractional => dec(rng.gen_range(1..2_000_000), [1, 2, 3, 4][rng.gen_range(0..4)]),
        _ => dec(rng.gen_range(1..2000), 1),
    }
}

/// quantities a user would type: at most ten decimal places.  Selling "everything" of a balance that no
/// decimal represents exactly (after a split into thirds) therefore leaves a residue of less than 1e-10
/// shares - in acb and in the exact rules alike
fn typed(q: Decimal, held: Decimal) -> Decimal {
    let t = q.round_dp_with_strategy(10, rust_decimal::RoundingStrategy::ToZero);
    if t.is_zero() {
        held.round_dp_with_strategy(10, rust_decimal::RoundingStrategy::ToZero)
    } else {
        t
    }
}

fn pick_sell(rng: &mut StdRng, held: Decimal, profile: Profile) -> Decimal {
    typed(pick_sell_raw(rng, held, profile), held)
}

fn pick_sell_raw(rng: &mut StdRng, held: Decimal, profile: Profile) -> Decimal {
    match rng.gen_range(0..10) {
        0..=5 if profile == Profile::Costs => held,
        0..=2 => held,
        3..=4 => (held / dec(2, 0)).round_dp(4).max(dec(1, 4)).min(held),
        5..=6 => (held / dec(3, 0)).round_dp(2).max(dec(1, 2)).min(held),
        _ => {
            let _ = profile;
            let f = dec(rng.gen_range(1..100), 2);
            (held * f).round_dp(3).max(dec(1, 3)).min(held)
        }
    }
}

fn set_money(rng: &mut StdRng, row: &mut Row, profile: Profile) {
    // commission
    if rng.gen_bool(0.6) {
        row.c = num(dec(rng.gen_range(0..3000), 2));
    }
    match rng.gen_range(0..10) {
        0..=4 => {
            if rng.gen_bool(0.3) {
                row.cur = "CAD".into();
            }
        }
        5..=7 => {
            row.cur = ["USD", "usd"][rng.gen_range(0..2)].into();
            row.r = num(dec(rng.gen_range(1_100_000_000i64..1_450_000_000), 9).round_dp([9, 9, 4, 2][rng.gen_range(0..4)]));
            if profile == Profile::Arith && rng.gen_bool(0.3) {
                // commission in another currency
                if rng.gen_bool(0.5) {
                    row.ccur = "CAD".into();
                } else if rng.gen_bool(0.5) {
                    row.ccur = "EUR".into();
                    row.rc = num(dec(rng.gen_range(13000..16000), 4));
                } else {
                    // the trade's own currency, at a rate of its own
                    row.ccur = "USD".into();
                    row.rc = num(dec(rng.gen_range(11000..14500), 4));
                }
            }
        }
        _ => {
            row.cur = "EUR".into();
            row.r = num(dec(rng.gen_range(13000..16000), 4));
            if profile == Profile::Arith && rng.gen_bool(0.3) {
                row.ccur = "USD".into();
                row.rc = num(dec(rng.gen_range(11000..14500), 4));
            }
        }
    }
    if profile == Profile::Totals && rng.gen_bool(0.4) {
        // figures whose third decimal is 5: display rounding must go away from zero
        let p = row.p.dec().unwrap().round_dp(2);
        row.p = num(p + dec(5, 3));
        row.cur = String::new();
        row.r = Num::default();
        row.ccur = String::new();
        row.rc = Num::default();
        if row.act.to_lowercase() == "buy" {
            row.q = num(dec([1, 3, 7, 11][rng.gen_range(0..4)], 0));
        }
    }
    if profile == Profile::Arith && rng.gen_bool(0.15) {
        // a price with many decimals
        let p = row.p.dec().unwrap();
        row.p = num((p + dec(rng.gen_range(1..1_000_000_000), 10)).round_dp(10));
    }
}
