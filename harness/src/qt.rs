//! Property C18: Questrade activity sheets (as TLC composes them, or drawn at random) are laid out as
//! an `office::Range` in one of several column layouts and converted by the real
//! `questrade::sheet_to_txs`; the emitted transactions are sorted as tx-export-convert does, written
//! with the real CSV table writer, and re-read with acb's parser ("accepted by acb").

use acb::peripheral::broker::questrade::sheet_to_txs;
use acb::portfolio::io::tx_csv::{parse_tx_csv, txs_to_csv_table, TxCsvParseOptions};
use acb::portfolio::{CsvTx, Tx};
use acb::util::rw::{DescribedReader, WriteHandle};
use office::{DataType, Range};
use rand::rngs::StdRng;
use rand::{Rng, SeedableRng};
use rust_decimal::prelude::ToPrimitive;
use rust_decimal::Decimal;
use serde_json::{json, Value};

use crate::ledger::{clean, panic_text};
use crate::model::*;

const COLS: [&str; 14] = [
    "Transaction Date", "Settlement Date", "Action", "Symbol", "Description", "Quantity", "Price", "Gross Amount",
    "Commission", "Net Amount", "Currency", "Account #", "Activity Type", "Account Type",
];

/// column layout: the order of the named columns plus extra columns (None = blank header cell,
/// Some(name) = an unrelated named column)
fn layout(v: u64) -> Vec<Result<usize, Option<&'static str>>> {
    let named: Vec<Result<usize, Option<&'static str>>> = (0..COLS.len()).map(Ok).collect();
    match v % 5 {
        0 => named,
        1 => named.into_iter().rev().collect(),
        2 => {
            let mut c = named;
            c.insert(4, Err(Some("Notes")));
            c.push(Err(Some("Exchange")));
            c
        }
        3 => {
            // a blank-headed column first (a spreadsheet's row-number column)
            let mut c = vec![Err(None)];
            c.extend(named);
            c
        }
        _ => {
            // blank-headed column in the middle, rotated order
            let mut c: Vec<Result<usize, Option<&'static str>>> = (7..COLS.len()).chain(0..7).map(Ok).collect();
            c.insert(5, Err(None));
            c
        }
    }
}

fn dec_of(v: &Value) -> Decimal {
    // [mantissa, scale]
    Decimal::new(v[0].as_i64().unwrap_or(0), v[1].as_u64().unwrap_or(0) as u32)
}

fn num_cell(d: Decimal, as_float: bool) -> DataType {
    if as_float {
        DataType::Float(d.to_f64().unwrap())
    } else {
        DataType::String(d.normalize().to_string())
    }
}

pub fn build_range(rows: &[Value], lay: u64, float_cells: bool) -> Range {
    let cols = layout(lay);
    let mut rg = Range::new((0, 0), (rows.len() + 1, cols.len()));
    for (ci, c) in cols.iter().enumerate() {
        match c {
            Ok(k) => rg.set_value((0, ci as u32), DataType::String(COLS[*k].to_string())),
            Err(Some(name)) => rg.set_value((0, ci as u32), DataType::String(name.to_string())),
            Err(None) => {}
        }
    }
    for (ri, r) in rows.iter().enumerate() {
        let t = &r["t"];
        let day = r["day"].as_i64().unwrap();
        let get = |k: usize| -> DataType {
            match COLS[k] {
                "Transaction Date" => DataType::String(format!("{} 12:00:00 AM", date_str(day))),
                "Settlement Date" => DataType::String(format!("{} 12:00:00 AM", date_str(day + 2))),
                "Action" => DataType::String(t["act"].as_str().unwrap().to_string()),
                "Symbol" => DataType::String(t["sym"].as_str().unwrap().to_string()),
                "Description" => DataType::String("SOME DESCRIPTION, INC".into()),
                "Quantity" => num_cell(dec_of(&t["qty"]), float_cells),
                "Price" => num_cell(dec_of(&t["price"]), float_cells),
                "Gross Amount" => num_cell(dec_of(&t["qty"]).abs() * dec_of(&t["price"]), float_cells),
                "Commission" => num_cell(dec_of(&t["comm"]), float_cells),
                "Net Amount" => num_cell(dec_of(&t["net"]), float_cells),
                "Currency" => DataType::String(t["cur"].as_str().unwrap().to_string()),
                "Account #" => DataType::String(t["num"].as_str().unwrap().to_string()),
                "Activity Type" => DataType::String("Trades".into()),
                _ => DataType::String(t["acct"].as_str().unwrap().to_string()),
            }
        };
        for (ci, c) in cols.iter().enumerate() {
            let v = match c {
                Ok(k) => get(*k),
                Err(Some(_)) => DataType::String("n/a".into()),
                Err(None) => DataType::Int(ri as i64 + 1),
            };
            rg.set_value((ri as u32 + 1, ci as u32), v);
        }
    }
    rg
}

pub fn qt_record(case: &Value, n: u64) -> Value {
    let rows = case["rows"].as_array().unwrap().clone();
    let lay = case["layout"].as_u64().unwrap_or(0);
    let float_cells = n % 3 == 1;
    let res = std::panic::catch_unwind(std::panic::AssertUnwindSafe(|| {
        let rg = build_range(&rows, lay, float_cells);
        sheet_to_txs(&rg, None)
    }));
    let inrows: Vec<Value> = rows
        .iter()
        .map(|r| {
            let t = &r["t"];
            json!({"act": t["act"], "sym": t["sym"], "cur": t["cur"], "qty": dj(&dec_of(&t["qty"])), "price": dj(&dec_of(&t["price"])),
                   "comm": dj(&dec_of(&t["comm"])), "net": dj(&dec_of(&t["net"])), "acct": t["acct"], "num": t["num"], "day": r["day"], "sday": r["day"].as_i64().unwrap() + 2})
        })
        .collect();
    let mut rec = json!({"id": format!("qt-{}", n), "kind": "sheet", "layout": lay, "floatCells": float_cells, "rows": inrows});
    match res {
        Ok(Ok(mut txs)) => {
            txs.sort();
            let out: Vec<Value> = txs
                .iter()
                .map(|t| {
                    json!({"sec": t.security, "act": t.action.pretty_str(), "q": dj(&t.num_shares), "p": dj(&t.amount_per_share), "c": dj(&t.commission),
                           "cur": t.currency.to_string(), "hasRate": t.exchange_rate.is_some(), "rate": dj(&t.exchange_rate.unwrap_or(Decimal::ONE)),
                           "af": t.affiliate.id(), "td": day_of(t.trade_date), "sd": day_of(t.settlement_date), "row": t.row_num})
                })
                .collect();
            // "every emitted row is accepted by acb": write the CSV the tool prints (USD rows given a rate, as
            // --usd-exchange-rate does) and read it back with acb's own parser
            let csv_txs: Vec<CsvTx> = txs
                .into_iter()
                .map(|mut t| {
                    if t.exchange_rate.is_none() && !t.currency.is_default() {
                        t.exchange_rate = Some(Decimal::new(13, 1));
                    }
                    t.into()
                })
                .collect();
            let table = txs_to_csv_table(&csv_txs);
            let mut text = table.header.join(",");
            text.push('\n');
            for r in &table.rows {
                let cells: Vec<String> = r.iter().map(|c| if c.contains(',') || c.contains('"') { format!("\"{}\"", c.replace('"', "\"\"")) } else { c.clone() }).collect();
                text.push_str(&cells.join(","));
                text.push('\n');
            }
            let mut rd = DescribedReader::from_string("converted.csv".into(), text);
            let accepted = match parse_tx_csv(&mut rd, 0, &TxCsvParseOptions::default(), &mut WriteHandle::empty_write_handle()) {
                Ok(v) => {
                    let n_in = v.len();
                    let bad: Vec<String> = v.into_iter().map(Tx::try_from).filter_map(|r| r.err()).collect();
                    if bad.is_empty() && n_in == out.len() { String::new() } else { format!("{} of {} rows refused: {:?}", bad.len(), n_in, bad.first()) }
                }
                Err(e) => e,
            };
            rec["status"] = json!("ok");
            rec["msg"] = json!("");
            rec["out"] = json!(out);
            rec["refused"] = json!(clean(&accepted));
        }
        Ok(Err(e)) => {
            rec["status"] = json!("error");
            rec["msg"] = json!(clean(&e.errors.iter().map(|x| x.to_string()).collect::<Vec<_>>().join(" | ")));
            rec["out"] = json!([]);
            rec["refused"] = json!("");
        }
        Err(p) => {
            rec["status"] = json!("panic");
            rec["msg"] = json!(clean(&panic_text(p)));
            rec["out"] = json!([]);
            rec["refused"] = json!("");
        }
    }
    rec
}

/// random well-formed exports of 10..60 activities
pub fn gen_qt_case(seed: u64, k: u64) -> Value {
    let mut rng = StdRng::seed_from_u64(seed.wrapping_mul(7919).wrapping_add(k));
    let n = rng.gen_range(8..50);
    let mut rows = Vec::new();
    let mut day = 18500 + rng.gen_range(0..500) as i64;
    let accounts = [("Margin", "11122233"), ("Individual TFSA", "44455566"), ("RRSP", "777")];
    let single_account = rng.gen_bool(0.5);
    let d2 = |rng: &mut StdRng, lo: i64, hi: i64, e: u32| -> Value { json!([rng.gen_range(lo..hi), e]) };
    while rows.len() < n {
        day += [0, 0, 0, 1, 2, 5][rng.gen_range(0..6)];
        let (acct, num) = if single_account { accounts[0] } else { accounts[rng.gen_range(0..3)] };
        let cur = if rng.gen_bool(0.5) { "USD" } else { "CAD" };
        let sym = ["FOO", "BAR", "VFV.TO", "H038778"][rng.gen_range(0..4)];
        let roll = rng.gen_range(0..100);
        let mk = |act: &str, sym: &str, cur: &str, qty: Value, price: Value, comm: Value, net: Value| json!({"t": {"act": act, "sym": sym, "cur": cur, "qty": qty, "price": price, "comm": comm, "net": net, "acct": acct, "num": num}, "day": day});
        if roll < 35 {
            rows.push(mk("BUY", sym, cur, d2(&mut rng, 1, 500, 0), d2(&mut rng, 100, 90000, 2), json!([-rng.gen_range(0..995), 2]), json!([0, 0])));
        } else if roll < 60 {
            rows.push(mk(["SELL", "Sell"][rng.gen_range(0..2)], sym, cur, json!([-rng.gen_range(1..500), 0]), d2(&mut rng, 100, 90000, 4), json!([-rng.gen_range(0..995), 2]), json!([0, 0])));
        } else if roll < 65 {
            rows.push(mk("DIS", sym, cur, d2(&mut rng, 1, 20, 0), json!([0, 0]), json!([0, 0]), json!([0, 0])));
        } else if roll < 70 {
            rows.push(mk("LIQ", sym, cur, json!([-rng.gen_range(1..20), 0]), d2(&mut rng, 100, 9000, 2), json!([0, 0]), json!([0, 0])));
        } else if roll < 80 {
            // one dividend in five is a reversal (negative net amount)
            let sign: i64 = if day % 5 == 0 { -1 } else { 1 };
            let net = json!([sign * rng.gen_range(1..50000i64), 2]);
            rows.push(mk("DIV", sym, cur, json!([0, 0]), json!([0, 0]), json!([0, 0]), net));
        } else if roll < 90 {
            // both legs of a conversion, either order, either direction
            let usd = rng.gen_range(100..500000);
            let rate = rng.gen_range(12000..14000);
            let cad = (usd as i128 * rate as i128 / 10000) as i64;
            let dir = if rng.gen_bool(0.5) { 1 } else { -1 };
            let a = mk("FXT", "", "USD", json!([0, 0]), json!([0, 0]), json!([0, 0]), json!([dir * usd, 2]));
            let b = mk("FXT", "", "CAD", json!([0, 0]), json!([0, 0]), json!([0, 0]), json!([-dir * cad, 2]));
            if rng.gen_bool(0.5) {
                rows.push(a);
                rows.push(b);
            } else {
                rows.push(b);
                rows.push(a);
            }
        } else {
            rows.push(mk(["DEP", "CON", "EFT", "INT", ""][rng.gen_range(0..5)], "", "CAD", json!([0, 0]), json!([0, 0]), json!([0, 0]), d2(&mut rng, 1, 500000, 2)));
        }
    }
    json!({"id": format!("qtgen-{}-{}", seed, k), "layout": rng.gen_range(0..5), "rows": rows})
}

// ---------------------------------------------------------------------------------------------
// process level: a real .xlsx through the tx-export-convert binary, with option combinations
// ---------------------------------------------------------------------------------------------
pub fn write_xlsx(rows: &[Value], lay: u64, float_cells: bool, path: &std::path::Path) -> Result<(), String> {
    write_range_xlsx(&build_range(rows, lay, float_cells), path)
}

pub fn write_range_xlsx(rg: &Range, path: &std::path::Path) -> Result<(), String> {
    let mut wb = rust_xlsxwriter::Workbook::new();
    let sheet = wb.add_worksheet();
    for (ri, row) in rg.rows().enumerate() {
        for (ci, cell) in row.iter().enumerate() {
            let (r, c) = (ri as u32, ci as u16);
            match cell {
                DataType::String(s) => {
                    sheet.write(r, c, s.as_str()).map_err(|e| e.to_string())?;
                }
                DataType::Float(f) => {
                    sheet.write(r, c, *f).map_err(|e| e.to_string())?;
                }
                DataType::Int(i) => {
                    sheet.write(r, c, *i as f64).map_err(|e| e.to_string())?;
                }
                _ => {}
            }
        }
    }
    wb.save(path).map_err(|e| e.to_string())
}

fn parse_out_csv(text: &str) -> Vec<Value> {
    let mut rd = csv::ReaderBuilder::new().has_headers(true).from_reader(text.as_bytes());
    let hdr: Vec<String> = rd.headers().map(|h| h.iter().map(|s| s.to_string()).collect()).unwrap_or_default();
    let col = |name: &str| hdr.iter().position(|h| h == name);
    let mut out = Vec::new();
    for rec in rd.records().flatten() {
        let get = |name: &str| col(name).and_then(|i| rec.get(i)).unwrap_or("").to_string();
        let d = |s: String| dj(&s.parse::<Decimal>().unwrap_or_default());
        out.push(json!({"sec": get("security"), "act": get("action"), "q": d(get("shares")), "p": d(get("amount/share")), "c": d(get("commission")),
                        "cur": get("currency"), "hasRate": !get("exchange rate").is_empty(), "rate": d(get("exchange rate")),
                        "af": affiliate_id(&get("affiliate")).0, "td": days_in_text(&get("trade date")).first().cloned().unwrap_or(0),
                        "sd": days_in_text(&get("settlement date")).first().cloned().unwrap_or(0), "margin": get("memo").contains(" Margin ")}));
    }
    out
}

pub fn qt_opts_record(case: &Value, n: u64, scratch: &std::path::Path) -> Value {
    let rows = case["rows"].as_array().unwrap().clone();
    let lay = case["layout"].as_u64().unwrap_or(0);
    let dir = scratch.join(format!("qt_{}", n));
    let _ = std::fs::remove_dir_all(&dir);
    std::fs::create_dir_all(&dir).unwrap();
    let x = dir.join("export.xlsx");
    let mut rec = json!({"id": format!("qtopt-{}", n), "layout": lay, "kind": "opts", "rows": []});
    if let Err(e) = write_xlsx(&rows, lay, n % 2 == 0, &x) {
        rec["status"] = json!("skipped");
        rec["msg"] = json!(e);
        rec["variants"] = json!([]);
        return rec;
    }
    let exe = crate::proc::exe_dir().join("txconv-app");
    let variants: Vec<(&str, Vec<String>)> = vec![
        ("base", vec!["--account".into(), ".".into()]),
        ("no-fx", vec!["--account".into(), ".".into(), "--no-fx".into()]),
        ("security", vec!["--account".into(), ".".into(), "--security".into(), "^FOO$".into()]),
        ("account", vec!["--account".into(), "Margin".into()]),
        ("account-anchored", vec!["--account".into(), "^Margin 111".into()]),
        ("no-sort", vec!["--account".into(), ".".into(), "--no-sort".into()]),
        ("usd-rate", vec!["--account".into(), ".".into(), "--usd-exchange-rate".into(), "1.3125".into()]),
    ];
    let mut vs = Vec::new();
    for (name, extra) in variants {
        let mut args = vec![x.to_string_lossy().to_string()];
        args.extend(extra);
        let p = crate::proc::run_proc(&exe, &args, &dir, None, None, 60);
        let stderr = String::from_utf8_lossy(&p.stderr).to_string();
        vs.push(json!({"opt": name, "exit": p.code, "panicked": stderr.contains("panicked at"), "stderr": clean(&stderr.chars().take(200).collect::<String>()),
                       "rows": parse_out_csv(&String::from_utf8_lossy(&p.stdout))}));
    }
    let _ = std::fs::remove_dir_all(&dir);
    rec["status"] = json!("ok");
    rec["msg"] = json!("");
    rec["variants"] = json!(vs);
    rec
}
