// The repository's own `questrade-statement-fmv` main.
include!("/repo/src/bin/questrade_statement_fmv.rs");
