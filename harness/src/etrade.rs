//! Property C19: scenarios of E*TRADE benefit and trade confirmations (as TLC composes them, or
//! random ones) are rendered as the extracted-text files the tool accepts (.txt), using the
//! repository's own sample confirmations as layout templates, and run through the real
//! `etrade-plan-pdf-tx-extract` binary.

use std::path::Path;

use regex::Regex;
use rust_decimal::Decimal;
use serde_json::{json, Value};

use crate::ledger::clean;
use crate::model::*;
use crate::proc::{exe_dir, run_proc};

const DATA: &str = "/repo/tests/data/etrade_scenarios";

fn template(rel: &str) -> String {
    std::fs::read_to_string(format!("{}/{}", DATA, rel)).unwrap_or_else(|e| panic!("template {rel}: {e}"))
}

fn sub(text: &str, pat: &str, rep: &str) -> String {
    let re = Regex::new(pat).unwrap();
    assert!(re.is_match(text), "template lacks {pat}");
    re.replace(text, regex::NoExpand(rep)).to_string()
}

fn rat(v: &Value) -> Decimal {
    // {"m": "203", "d": "2"}
    let m: Decimal = v["m"].as_str().unwrap().parse().unwrap();
    let d: Decimal = v["d"].as_str().unwrap().parse().unwrap();
    m / d
}

fn mdy(day: i64, sep: char) -> String {
    let d = date_of(day);
    format!("{:02}{}{:02}{}{:04}", d.month() as u8, sep, d.day(), sep, d.year())
}
fn mdy_short(day: i64) -> String {
    let d = date_of(day);
    format!("{:02}/{:02}/{:02}", d.month() as u8, d.day(), d.year() % 100)
}

pub fn rsu_text(n: usize, day: i64, shares: Decimal, fmv: Decimal, sold: Decimal, sprice: Decimal, fee: Decimal) -> String {
    let mut t = template("2024_with_manual_sells/pypdf/rsu_1.txt");
    t = sub(&t, r"Award Number R\d+", &format!("Award Number R1{:04}", n));
    t = sub(&t, r"Release Date \d+-\d+-\d+", &format!("Release Date {}", mdy(day, '-')));
    t = sub(&t, r"Shares Released \d+\.\d+", &format!("Shares Released {:.4}", shares));
    t = sub(&t, r"Market Value Per Share \$\d+\.\d+", &format!("Market Value Per Share ${:.6}", fmv));
    t = sub(&t, r"Sale Price Per Share \$\d+\.\d+", &format!("Sale Price Per Share ${:.6}", sprice));
    t = sub(&t, r"Shares Sold \(\d+\.\d+\)", &format!("Shares Sold ({:.4})", sold));
    t = sub(&t, r"Shares Issued \d+\.\d+", &format!("Shares Issued {:.4}", shares - sold));
    t = sub(&t, r"Fee \(\$\d+\.\d+\)", &format!("Fee (${:.2})", fee));
    t
}

/// option exercise (same-day sale) confirmation with one grant, in the layout of the repository's unit tests
pub fn eso_text(n: usize, day: i64, shares: Decimal, fmv: Decimal, sold: Decimal, sprice: Decimal, fee: Decimal) -> String {
    format!(
        "\n        Account Number 11223344\n        Tax Payment Method Sell-to-cover\n        Company Name (Symbol) Foo Inc.\n        (FOO)\n\n        Exercise Type: Same-Day Sale Registration\n\n        Shares Sold {}\n\n        Exercise Details\n\n        Grant 1\n        Grant Number 12{:02}\n        Exercise Market Value ${:.2}\n        Shares Exercised {}\n        Sale Price ${:.2}\n        Comission/Fee ${:.2}\n\n        Exercise Date:  {}\n\n        Provided by Foo Inc.\n        John Doe\n        Employee ID: 1111\n        STOCK PLAN EXERCISE CONFIRMATION\n        ",
        sold.normalize(), n, fmv, shares.normalize(), sprice, fee, mdy(day, '/')
    )
}

pub fn trade_text_post2023(sec: &str, td: i64, sd: i64, shares: Decimal, price: Decimal, commission: Decimal, fee: Decimal) -> String {
    let mut t = template("2024_with_manual_sells/pypdf/trade_conf_1.txt");
    t = sub(&t, r"\d+/\d+/\d+ \d+/\d+/\d+ \d+ \d+\.\d+", &format!("{} {} {} {}", mdy(td, '/'), mdy(sd, '/'), shares.normalize(), price_str(price)));
    t = sub(&t, r"ISIN: \S+", &format!("ISIN: {}", sec));
    t = sub(&t, r"Commission \$\d+\.\d+", &format!("Commission ${:.2}", commission));
    t = sub(&t, r"Transaction Fee \$\d+\.\d+", &format!("Transaction Fee ${:.2}", fee));
    t
}

fn price_str(p: Decimal) -> String {
    let s = p.normalize().to_string();
    if s.contains('.') { s } else { format!("{}.00", s) }
}

pub fn trade_text_pre2023(sec: &str, td: i64, sd: i64, shares: Decimal, price: Decimal, commission: Decimal, fee: Decimal) -> String {
    let mut t = template("2022_sample/pypdf/trade_conf_1.txt");
    t = sub(&t, r"\d+/\d+/\d+ \d+/\d+/\d+ 61 \S+ SELL \d+ \$\d+\.\d+", &format!("{} {} 61 {} SELL {} ${}", mdy_short(td), mdy_short(sd), sec, shares.normalize(), price_str(price)));
    t = sub(&t, r"COMMISSION \$\d+\.\d+", &format!("COMMISSION ${:.2}", commission));
    t = sub(&t, r"FEE \$\d+\.\d+", &format!("FEE ${:.2}", fee));
    t
}

/// the same confirmation printed without its FEE line (charges = 1) or without the COMMISSION entry
/// (charges = 2): both lines are optional in that layout
pub fn trade_text_pre2023_charges(sec: &str, td: i64, sd: i64, shares: Decimal, price: Decimal, commission: Decimal, fee: Decimal, charges: u64) -> String {
    let t = trade_text_pre2023(sec, td, sd, shares, price, commission, fee);
    match charges {
        1 => sub(&t, r"(?m)^FEE \$\d+\.\d+\n", ""),
        2 => sub(&t, r" COMMISSION \$\d+\.\d+\n", " "),
        _ => t,
    }
}

/// scenario: {"benefits":[{day, sold, sprice{m,d}}], "trades":[{sec, td, sd, shares, price{m,d}}], "layout": 0|1, "order": 0|1}
pub fn etrade_record(case: &Value, n: u64, scratch: &Path) -> Value {
    let layout = case["layout"].as_u64().unwrap_or(n % 2);
    let order = case["order"].as_u64().unwrap_or((n / 2) % 2);
    // day 0 of the scenario
    let base = if layout == 0 { day_of(time::Date::from_calendar_date(2024, time::Month::February, 20).unwrap()) } else { day_of(time::Date::from_calendar_date(2022, time::Month::March, 8).unwrap()) };
    let dir = scratch.join(format!("et_{}", n));
    let _ = std::fs::remove_dir_all(&dir);
    std::fs::create_dir_all(&dir).unwrap();
    let mut files: Vec<String> = Vec::new();
    let mut bens = Vec::new();
    for (i, b) in case["benefits"].as_array().unwrap().iter().enumerate() {
        let day = base + b["day"].as_i64().unwrap();
        let sold = Decimal::from(b["sold"].as_i64().unwrap());
        let sprice = rat(&b["sprice"]);
        let shares = Decimal::from(10);
        let fmv = Decimal::from(100);
        let fee = Decimal::new(417, 2);
        // file names decide the order in which the tool reads the confirmations
        let name = if order == 0 { format!("a_rsu_{}.txt", i) } else { format!("z_rsu_{}.txt", 9 - i) };
        // every third scenario uses option-exercise confirmations instead of RSU releases (the sale price
        // is printed with two decimals there)
        let eso = n % 3 == 2 && (sprice * Decimal::from(100)).fract().is_zero();
        let text = if eso { eso_text(i + 1, day, shares, fmv, sold, sprice, fee) } else { rsu_text(i + 1, day, shares, fmv, sold, sprice, fee) };
        std::fs::write(dir.join(&name), text).unwrap();
        files.push(dir.join(&name).to_string_lossy().to_string());
        bens.push(json!({"sec": "FOO", "day": day, "shares": dj(&shares), "fmv": dj(&fmv), "sold": dj(&sold), "sprice": dj(&sprice), "fee": dj(&fee)}));
    }
    let mut trades = Vec::new();
    for (i, t) in case["trades"].as_array().unwrap().iter().enumerate() {
        let sec = t["sec"].as_str().unwrap();
        let td = base + t["td"].as_i64().unwrap();
        let sd = base + t["sd"].as_i64().unwrap();
        let shares = Decimal::from(t["shares"].as_i64().unwrap());
        let price = rat(&t["price"]);
        let (commission, fee) = if sec == "BAR" { (Decimal::ZERO, Decimal::ZERO) } else { (Decimal::new(495, 2), Decimal::new(5, 2)) };
        let name = format!("m_trade_{:02}.txt", if order == 0 { i } else { 99 - i });
        // in the pre-2023 layout the COMMISSION entry and the FEE line are each optional
        let charges = if layout == 0 { 0 } else { (n + i as u64) % 3 };
        let (commission, fee) = match charges {
            1 => (commission, Decimal::ZERO),
            2 => (Decimal::ZERO, fee),
            _ => (commission, fee),
        };
        let text = if layout == 0 { trade_text_post2023(sec, td, sd, shares, price, commission, fee) } else { trade_text_pre2023_charges(sec, td, sd, shares, price, if charges == 2 { Decimal::new(495, 2) } else { commission }, if charges == 1 { Decimal::new(5, 2) } else { fee }, charges) };
        std::fs::write(dir.join(&name), text).unwrap();
        files.push(dir.join(&name).to_string_lossy().to_string());
        trades.push(json!({"sec": sec, "td": td, "sd": sd, "shares": dj(&shares), "price": dj(&price), "comm": dj(&(commission + fee))}));
    }
    let p = run_proc(&exe_dir().join("etrade-app"), &files, &dir, None, None, 60);
    let stdout = String::from_utf8_lossy(&p.stdout).to_string();
    let stderr = String::from_utf8_lossy(&p.stderr).to_string();
    let mut out = Vec::new();
    let mut accepted = String::new();
    if p.code == 0 {
        let mut rd = csv::ReaderBuilder::new().has_headers(true).from_reader(stdout.as_bytes());
        let hdr: Vec<String> = rd.headers().map(|h| h.iter().map(|s| s.to_string()).collect()).unwrap_or_default();
        for rec in rd.records().flatten() {
            let get = |name: &str| hdr.iter().position(|h| h == name).and_then(|i| rec.get(i)).unwrap_or("").to_string();
            let d = |s: String| dj(&s.parse::<Decimal>().unwrap_or_default());
            let memo = get("memo");
            out.push(json!({"sec": get("security"), "act": get("action"), "td": days_in_text(&get("trade date")).first().cloned().unwrap_or(0),
                            "sd": days_in_text(&get("settlement date")).first().cloned().unwrap_or(0), "shares": d(get("shares")), "price": d(get("amount/share")),
                            "comm": d(get("commission")), "cur": get("currency"),
                            "kind": if memo.contains("(manual trade)") { "manual" } else if get("action") == "Sell" { "cover" } else { "buy" }}));
        }
        // accepted by acb: parse the printed CSV (USD rows need a rate: add the column as --usd-exchange-rate would)
        let mut rd2 = acb::util::rw::DescribedReader::from_string("out.csv".into(), stdout.clone());
        accepted = match acb::portfolio::io::tx_csv::parse_tx_csv(&mut rd2, 0, &Default::default(), &mut acb::util::rw::WriteHandle::empty_write_handle()) {
            Ok(v) => {
                let bad: Vec<String> = v
                    .into_iter()
                    .map(|mut c| {
                        if c.tx_curr_to_local_exchange_rate.is_none() {
                            c.tx_curr_to_local_exchange_rate = Some(Decimal::new(13, 1));
                        }
                        acb::portfolio::Tx::try_from(c)
                    })
                    .filter_map(|r| r.err())
                    .collect();
                bad.first().cloned().unwrap_or_default()
            }
            Err(e) => e,
        };
    }
    let _ = std::fs::remove_dir_all(&dir);
    json!({"id": format!("et-{}", n), "layout": layout, "order": order, "B": bens, "T": trades, "exit": p.code, "panicked": stderr.contains("panicked at"),
           "stderr": clean(&stderr.chars().take(240).collect::<String>()), "out": out, "refused": clean(&accepted)})
}

/// random scenarios: 1..3 benefits a few days apart, their sell-to-cover split over 1..3 fills, plus manual sales
pub fn gen_etrade_case(seed: u64, k: u64) -> Value {
    use rand::{Rng, SeedableRng};
    let mut rng = rand::rngs::StdRng::seed_from_u64(seed.wrapping_mul(104729).wrapping_add(k));
    let nb = rng.gen_range(1..4);
    let mut benefits = Vec::new();
    let mut trades = Vec::new();
    let mut day = 0i64;
    for _ in 0..nb {
        let sold = rng.gen_range(2..9i64);
        let sprice_m = rng.gen_range(2000..2400i64);
        benefits.push(json!({"day": day, "sold": sold, "sprice": {"m": sprice_m.to_string(), "d": "20"}}));
        // fills of the sell-to-cover, 0..5 days after
        let mut left = sold;
        let td = day + rng.gen_range(0..6);
        while left > 0 {
            let q = if rng.gen_bool(0.5) { left } else { rng.gen_range(1..=left) };
            trades.push(json!({"sec": "FOO", "td": td, "sd": td + 2, "shares": q, "price": {"m": (sprice_m + rng.gen_range(-30..30)).to_string(), "d": "20"}}));
            left -= q;
        }
        if rng.gen_bool(0.5) {
            let td = day + rng.gen_range(-3..9);
            trades.push(json!({"sec": "FOO", "td": td, "sd": td + 2, "shares": rng.gen_range(1..12), "price": {"m": "3001", "d": "20"}}));
        }
        day += rng.gen_range(1..12);
    }
    trades.sort_by_key(|t| (t["td"].as_i64().unwrap(), t["shares"].as_i64().unwrap()));
    json!({"id": format!("etgen-{}-{}", seed, k), "benefits": benefits, "trades": trades, "layout": rng.gen_range(0..2), "order": rng.gen_range(0..2)})
}
