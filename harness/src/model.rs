//! Input cases (as emitted by TLC or by the random drivers), their materialisation as the
//! files acb reads, and the projection of implementation values into trace events.
//!
//! The projection of the *input* rows into the trace (`RowEv`) is computed here from the case,
//! never from acb's parsed view, so that a parsing/ordering/defaulting bug in acb shows up as a
//! disagreement with the specification.

use std::collections::BTreeMap;

use rust_decimal::Decimal;
use serde::{Deserialize, Serialize};
use serde_json::{json, Value};
use time::Date;

/// A number in a case: a decimal string, or [mantissa, scale] as TLC emits it.
#[derive(Clone, Debug, Deserialize, Serialize, PartialEq)]
#[serde(untagged)]
pub enum Num {
    S(String),
    P(i64, u32),
}

impl Num {
    pub fn is_empty(&self) -> bool {
        matches!(self, Num::S(s) if s.trim().is_empty())
    }
    pub fn text(&self) -> String {
        match self {
            Num::S(s) => s.clone(),
            Num::P(m, e) => {
                let d = Decimal::new(*m, *e);
                d.to_string()
            }
        }
    }
    pub fn dec(&self) -> Option<Decimal> {
        let t = self.text();
        if t.trim().is_empty() {
            None
        } else {
            t.trim().parse::<Decimal>().ok()
        }
    }
}

impl Default for Num {
    fn default() -> Self {
        Num::S(String::new())
    }
}

fn empty() -> Num {
    Num::default()
}

#[derive(Clone, Debug, Deserialize, Serialize)]
pub struct Row {
    pub sec: String,
    pub td: i64, // day number (days since 1970-01-01)
    pub sd: i64,
    pub act: String, // Buy | Sell | RoC | SfLA | Split
    #[serde(default)]
    pub af: String, // affiliate as the user would write it ("" = column left empty)
    #[serde(default = "empty")]
    pub q: Num,
    #[serde(default = "empty")]
    pub p: Num,
    #[serde(default = "empty")]
    pub c: Num,
    #[serde(default)]
    pub cur: String,
    #[serde(default = "empty")]
    pub r: Num,
    #[serde(default)]
    pub ccur: String,
    #[serde(default = "empty")]
    pub rc: Num,
    #[serde(default)]
    pub sfl: String, // "" | "-12.5" | "-12.5!"
    #[serde(default)]
    pub split: String, // "" | "2-for-1"
    #[serde(default)]
    pub memo: String,
}

#[derive(Clone, Debug, Deserialize, Serialize, Default)]
pub struct Case {
    pub id: String,
    pub files: Vec<Vec<Row>>,
    #[serde(default)]
    pub opening: BTreeMap<String, (Num, Num)>,
    /// free-form tags a generator attaches (echoed into the trace)
    #[serde(default)]
    pub tags: Value,
    /// header variant per file (see `header_variant`); missing = canonical
    #[serde(default)]
    pub hdr: Vec<u32>,
    /// literal CSV text per file, when the text is not produced by this harness (e.g. a summary CSV
    /// written by acb itself); `files[i]` then holds what that text is claimed to say
    #[serde(default)]
    pub raw: Vec<Option<String>>,
}

impl Case {
    pub fn file_text(&self, i: usize) -> String {
        match self.raw.get(i) {
            Some(Some(t)) => t.clone(),
            _ => csv_text_variant(&self.files[i], self.hdr.get(i).cloned().unwrap_or(0)),
        }
    }
}

pub const EPOCH_JD: i32 = 2440588; // Julian day of 1970-01-01

pub fn date_of(day: i64) -> Date {
    Date::from_julian_day(EPOCH_JD + day as i32).expect("day number out of range")
}
pub fn day_of(d: Date) -> i64 {
    (d.to_julian_day() - EPOCH_JD) as i64
}
pub fn date_str(day: i64) -> String {
    let d = date_of(day);
    format!("{:04}-{:02}-{:02}", d.year(), d.month() as u8, d.day())
}

/// {"m": "<mantissa>", "e": scale}
pub fn dj(d: &Decimal) -> Value {
    json!({"m": d.mantissa().to_string(), "e": d.scale()})
}
pub fn dzero() -> Value {
    json!({"m": "0", "e": 0})
}

/// The harness's own reading of an affiliate cell (README: "(R)" marks registered accounts,
/// names are case-insensitive, blank means Default).
pub fn affiliate_id(cell: &str) -> (String, bool) {
    let mut s = cell.to_string();
    let reg = s.contains("(R)") || s.contains("(r)");
    if reg {
        s = s.replace("(R)", " ").replace("(r)", " ");
    }
    let name = s.split_whitespace().collect::<Vec<_>>().join(" ");
    let name = if name.is_empty() { "Default".to_string() } else { name };
    let mut id = name.to_lowercase();
    if reg {
        id.push_str(" (R)");
    }
    (id, reg)
}

pub const GLOBAL_AF: &str = "__global__";

pub const HEADER: [&str; 15] = [
    "security",
    "trade date",
    "settlement date",
    "action",
    "shares",
    "amount/share",
    "commission",
    "currency",
    "exchange rate",
    "commission currency",
    "commission exchange rate",
    "superficial loss",
    "split ratio",
    "affiliate",
    "memo",
];

fn csv_cell(s: &str) -> String {
    if s.contains(',') || s.contains('"') || s.contains('\n') {
        format!("\"{}\"", s.replace('"', "\"\""))
    } else {
        s.to_string()
    }
}

pub fn row_cells(r: &Row) -> Vec<String> {
    vec![
        r.sec.clone(),
        date_str(r.td),
        date_str(r.sd),
        r.act.clone(),
        r.q.text(),
        r.p.text(),
        r.c.text(),
        r.cur.clone(),
        r.r.text(),
        r.ccur.clone(),
        r.rc.text(),
        r.sfl.clone(),
        r.split.clone(),
        r.af.clone(),
        r.memo.clone(),
    ]
}

pub fn csv_text(rows: &[Row]) -> String {
    csv_text_variant(rows, 0)
}

/// Column order (indices into HEADER, usize::MAX = an unrecognised extra column) and the way the
/// header cells are written, for header variant v (property C07: none of this may matter).
pub fn header_variant(v: u32) -> (Vec<usize>, fn(&str) -> String) {
    fn same(s: &str) -> String {
        s.to_string()
    }
    fn upper(s: &str) -> String {
        s.to_uppercase()
    }
    fn padded(s: &str) -> String {
        format!("  {} ", s)
    }
    fn mixed(s: &str) -> String {
        s.chars().enumerate().map(|(i, c)| if i % 2 == 0 { c.to_ascii_uppercase() } else { c }).collect::<String>() + " "
    }
    let n = HEADER.len();
    let canonical: Vec<usize> = (0..n).collect();
    match v % 7 {
        0 => (canonical, same),
        1 => (canonical, upper),
        2 => (canonical, padded),
        3 => ((0..n).rev().collect(), same),
        4 => {
            // unrecognised columns at the front, in the middle and at the end
            let mut c = vec![usize::MAX];
            c.extend(0..5);
            c.push(usize::MAX);
            c.extend(5..n);
            c.push(usize::MAX);
            (c, same)
        }
        6 => {
            // NOT layout-neutral (used by the determinism check only): the commission and memo
            // columns appear twice; the repeated cells are filled with other values
            let mut c = canonical.clone();
            c.insert(2, 6 + 1000);
            c.push(14 + 1000);
            (c, same)
        }
        _ => {
            // rotate the columns, mixed case, and an unrecognised column in between
            let mut c: Vec<usize> = (7..n).chain(0..7).collect();
            c.insert(3, usize::MAX);
            (c, mixed)
        }
    }
}

pub fn csv_text_variant(rows: &[Row], variant: u32) -> String {
    let (cols, style) = header_variant(variant);
    let mut extra = 0;
    let hdr: Vec<String> = cols
        .iter()
        .map(|&c| {
            if c == usize::MAX {
                extra += 1;
                // the first unrecognised column has a blank header cell (e.g. a spreadsheet's index column)
                if extra == 1 { String::new() } else { style(&format!("broker note {}", extra)) }
            } else if c >= 1000 {
                style(HEADER[c - 1000])
            } else {
                style(HEADER[c])
            }
        })
        .collect();
    let mut s = hdr.join(",");
    s.push('\n');
    for r in rows {
        let cells = row_cells(r);
        let line: Vec<String> = cols
            .iter()
            .map(|&c| {
                if c == usize::MAX {
                    "n/a 1,5".to_string()
                } else if c >= 1000 {
                    // the repeated column carries another value
                    if c - 1000 == 6 { "7.77".to_string() } else { "other memo".to_string() }
                } else {
                    cells[c].clone()
                }
            })
            .map(|c| csv_cell(&c))
            .collect();
        s.push_str(&line.join(","));
        s.push('\n');
    }
    s
}

pub fn norm_act(a: &str) -> &'static str {
    match a.trim().to_lowercase().as_str() {
        "buy" => "Buy",
        "sell" => "Sell",
        "roc" => "Roc",
        "sfla" => "Sfla",
        "split" => "Split",
        _ => "?",
    }
}

fn parse_split(s: &str) -> (Decimal, Decimal, bool) {
    // "<post>-for-<pre>"
    let t = s.trim().to_lowercase();
    let parts: Vec<&str> = t.split("-for-").collect();
    if parts.len() != 2 {
        return (Decimal::ONE, Decimal::ONE, false);
    }
    let post: Decimal = parts[0].parse().unwrap_or(Decimal::ONE);
    let pre: Decimal = parts[1].parse().unwrap_or(Decimal::ONE);
    let has_dot = |x: &str| x.contains('.');
    let int_only = !(has_dot(parts[0]) || has_dot(parts[1])) && pre > post;
    (post, pre, int_only)
}

/// Projection of one input row for the trace.  `idx` is the row's position in the
/// concatenation of all files of the case (the read index of property C07).
pub fn row_event(r: &Row, idx: usize) -> Value {
    let act = norm_act(&r.act);
    let (af, reg) = if act == "Split" && r.af.trim().is_empty() {
        (GLOBAL_AF.to_string(), false)
    } else {
        affiliate_id(&r.af)
    };
    let one = Decimal::ONE;
    let zero = Decimal::ZERO;
    let cur = r.cur.trim().to_uppercase();
    let rate = if cur.is_empty() || cur == "CAD" { one } else { r.r.dec().unwrap_or(one) };
    let ccur = r.ccur.trim().to_uppercase();
    let crate_ = if ccur.is_empty() {
        rate
    } else if ccur == "CAD" {
        one
    } else {
        r.rc.dec().unwrap_or(one)
    };
    let (sflv, force, has_sfl) = {
        let t = r.sfl.trim();
        if t.is_empty() {
            (zero, false, false)
        } else {
            let force = t.ends_with('!');
            let n = t.trim_end_matches('!');
            (n.parse::<Decimal>().unwrap_or(zero), force, true)
        }
    };
    let (post, pre, int_only) = if act == "Split" { parse_split(&r.split) } else { (one, one, false) };
    json!({
        "sec": r.sec, "act": act, "af": af, "reg": reg, "sd": r.sd, "td": r.td, "idx": idx,
        "q": dj(&r.q.dec().unwrap_or(zero)), "p": dj(&r.p.dec().unwrap_or(zero)),
        "c": dj(&r.c.dec().unwrap_or(zero)), "r": dj(&rate), "rc": dj(&crate_),
        "hasSfl": has_sfl, "sflv": dj(&sflv), "force": force,
        "post": dj(&post), "pre": dj(&pre), "intOnly": int_only,
    })
}

/// Day numbers of every YYYY-MM-DD date mentioned in a message.
pub fn days_in_text(s: &str) -> Vec<i64> {
    let b = s.as_bytes();
    let mut out = Vec::new();
    let mut i = 0;
    while i + 10 <= b.len() {
        let w = &b[i..i + 10];
        let ok = w[4] == b'-'
            && w[7] == b'-'
            && w.iter().enumerate().all(|(k, c)| k == 4 || k == 7 || c.is_ascii_digit());
        if ok {
            let y: i32 = s[i..i + 4].parse().unwrap();
            let m: u8 = s[i + 5..i + 7].parse().unwrap();
            let d: u8 = s[i + 8..i + 10].parse().unwrap();
            if let Ok(mm) = time::Month::try_from(m) {
                if let Ok(date) = Date::from_calendar_date(y, mm, d) {
                    out.push(day_of(date));
                }
            }
            i += 10;
        } else {
            i += 1;
        }
    }
    out
}
