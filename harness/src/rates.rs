//! Observation point O4: the exchange-rate loader driven through its public API with a mock Bank of
//! Canada (an `HttpRequester` serving valet JSON built from the case's publication calendar and
//! logging every request), a real `CsvRatesCache` over a scratch directory or an in-memory cache,
//! and `set_todays_date_for_test`.  One trace segment per case: runs and look-ups with their
//! results and the downloads each one caused.

use std::cell::RefCell;
use std::collections::BTreeMap;
use std::panic::{catch_unwind, AssertUnwindSafe};
use std::rc::Rc;

use acb::fx::io::{CsvRatesCache, InMemoryRatesCache, JsonRemoteRateLoader, RateLoader, RatesCache};
use acb::fx::DailyRate;
use acb::util::basic::SError;
use acb::util::date::set_todays_date_for_test;
use acb::util::http::HttpRequester;
use acb::util::rc::RcRefCellT;
use acb::util::rw::WriteHandle;
use rand::rngs::StdRng;
use rand::{Rng, SeedableRng};
use rust_decimal::Decimal;
use serde::{Deserialize, Serialize};
use serde_json::{json, Value};

use crate::ledger::{clean, panic_text};
use crate::model::*;

#[derive(Clone, Debug, Deserialize, Serialize)]
pub struct RatesCase {
    pub id: String,
    /// published observations: (day number, quote as the Bank of Canada publishes it)
    /// noon series (<= 2016): CAD per USD; daily series (>= 2017): USD per CAD
    pub cal: Vec<(i64, String)>,
    pub events: Vec<Value>,
    #[serde(default)]
    pub cache: String, // "csv" | "mem"
    #[serde(default)]
    pub tags: Value,
}

/// what the mock Bank of Canada knows at a given moment
#[derive(Default)]
pub struct Remote {
    pub cal: BTreeMap<i64, String>,
    pub today: i64,
    pub today_pub: bool,
    pub requests: Vec<i32>,
}

pub struct MockBoc(pub Rc<RefCell<Remote>>);

fn year_of_url(url: &str) -> i32 {
    // ...?start_date=YYYY-01-01&end_date=...
    url.split("start_date=").nth(1).and_then(|s| s.get(0..4)).and_then(|y| y.parse().ok()).unwrap_or(0)
}

#[async_trait::async_trait(?Send)]
impl HttpRequester for MockBoc {
    async fn get(&self, url: &str) -> Result<String, SError> {
        let year = year_of_url(url);
        let mut r = self.0.borrow_mut();
        r.requests.push(year);
        let series = if url.contains("FXCADUSD") { "FXCADUSD" } else { "IEXE0101" };
        let mut obs = Vec::new();
        for (d, q) in &r.cal {
            let avail = *d < r.today || (*d == r.today && r.today_pub);
            if avail && date_of(*d).year() == year {
                obs.push(format!("{{\"d\":\"{}\",\"{}\":{{\"v\":\"{}\"}}}}", date_str(*d), series, q));
            }
        }
        Ok(format!("{{\"terms\":{{}},\"seriesDetail\":{{}},\"observations\":[{}]}}", obs.join(",")))
    }
}

pub fn rates_segment(case: &RatesCase, scratch: &std::path::Path) -> Value {
    let dir = scratch.join(format!("rates_{}", case.id.replace('/', "_")));
    let _ = std::fs::remove_dir_all(&dir);
    std::fs::create_dir_all(&dir).unwrap();
    let v = rates_segment_in(case, &dir);
    let _ = std::fs::remove_dir_all(&dir);
    v
}

/// run the case over the given cache directory (which is left as the runs leave it)
pub fn rates_segment_in(case: &RatesCase, dir: &std::path::Path) -> Value {
    let dir = dir.to_path_buf();
    let remote = Rc::new(RefCell::new(Remote { cal: case.cal.iter().cloned().collect(), ..Default::default() }));
    let mem_store = RcRefCellT::new(std::collections::HashMap::<u32, Vec<DailyRate>>::new());
    let mut loader: Option<RateLoader> = None;
    let mut evs: Vec<Value> = Vec::new();
    for ev in &case.events {
        match ev["ev"].as_str().unwrap_or("") {
            "run" => {
                let today = ev["today"].as_i64().unwrap();
                let tp = ev["todayPub"].as_bool().unwrap_or(false);
                let force = ev["force"].as_bool().unwrap_or(false);
                // wr = false: this run cannot write the cache (a directory squats on every temporary /
                // final file name it would create)
                let wr = ev["wr"].as_bool().unwrap_or(true);
                if case.cache != "mem" {
                    set_cache_writable(&dir, wr, today);
                }
                {
                    let mut r = remote.borrow_mut();
                    r.today = today;
                    r.today_pub = tp;
                }
                set_todays_date_for_test(date_of(today));
                let cache: Box<dyn RatesCache> = if case.cache == "mem" {
                    Box::new(InMemoryRatesCache { rates_by_year: mem_store.clone() })
                } else {
                    Box::new(CsvRatesCache::new(dir.clone(), WriteHandle::empty_write_handle()))
                };
                loader = Some(RateLoader::new(
                    force,
                    cache,
                    JsonRemoteRateLoader::new_boxed(Box::new(MockBoc(remote.clone()))),
                    WriteHandle::empty_write_handle(),
                ));
                evs.push(json!({"ev": "run", "today": today, "todayPub": tp, "force": force, "wr": wr || case.cache == "mem", "d": 0,
                                "kind": "", "day": 0, "val": dzero(), "http": [], "msg": "",
                                "nkind": "", "nday": 0, "nval": dzero()}));
            }
            "lookup" => {
                let d = ev["d"].as_i64().unwrap();
                remote.borrow_mut().requests.clear();
                let l = loader.as_mut().expect("lookup before run");
                let res = catch_unwind(AssertUnwindSafe(|| l.blocking_get_effective_usd_cad_rate(date_of(d))));
                let http: Vec<i32> = remote.borrow().requests.clone();
                let (kind, day, val, msg) = match res {
                    Ok(Ok(r)) => ("rate", day_of(r.date), r.foreign_to_local_rate, String::new()),
                    Ok(Err(e)) => ("err", 0, Decimal::ZERO, e),
                    Err(p) => ("panic", 0, Decimal::ZERO, panic_text(p)),
                };
                // the same look-up against the same data with no cache at all: a fresh loader over an
                // empty in-memory cache
                let (nkind, nday, nval) = {
                    let mut fresh = RateLoader::new(
                        false,
                        Box::new(InMemoryRatesCache::new()),
                        JsonRemoteRateLoader::new_boxed(Box::new(MockBoc(remote.clone()))),
                        WriteHandle::empty_write_handle(),
                    );
                    match catch_unwind(AssertUnwindSafe(|| fresh.blocking_get_effective_usd_cad_rate(date_of(d)))) {
                        Ok(Ok(r)) => ("rate", day_of(r.date), r.foreign_to_local_rate),
                        Ok(Err(_)) => ("err", 0, Decimal::ZERO),
                        Err(_) => ("panic", 0, Decimal::ZERO),
                    }
                };
                evs.push(json!({"ev": "lookup", "today": 0, "todayPub": false, "force": false, "wr": true, "d": d,
                                "kind": kind, "day": day, "val": dj(&val), "http": http, "msg": clean(&msg),
                                "nkind": nkind, "nday": nday, "nval": dj(&nval)}));
            }
            _ => {}
        }
    }
    let cal: Vec<Value> = case.cal.iter().map(|(d, q)| json!([d, dj(&q.parse::<Decimal>().unwrap_or_default()), date_of(*d).year() >= 2017])).collect();
    json!({"id": case.id, "cache": if case.cache == "mem" { "mem" } else { "csv" }, "cal": cal, "events": evs, "tags": case.tags})
}

/// make every cache write of a run fail (or succeed again): directories occupy the names of the
/// temporary files the writer creates, for every year the run could touch
fn set_cache_writable(dir: &std::path::Path, writable: bool, today: i64) {
    let y = date_of(today).year();
    for year in (y - 3)..=(y + 1) {
        for name in [format!("rates-{}.csv.tmp", year)] {
            let p = dir.join(&name);
            if writable {
                if p.is_dir() {
                    let _ = std::fs::remove_dir_all(&p);
                }
            } else if !p.exists() {
                let _ = std::fs::create_dir_all(p.join("blocked"));
            }
        }
        // an in-place writer would be blocked by a read-only final file only for non-root; as root the
        // tmp-name squatting above is what makes the (temporary-file) writer fail
    }
}

/// A TLC behaviour over the window calendar (model day k = 2016-12-20 + k): turn it into a case
pub fn case_from_model(v: &Value, n: usize) -> RatesCase {
    let base = day_of(time::Date::from_calendar_date(2016, time::Month::December, 20).unwrap());
    let quotes_noon = ["1.3412", "1.3450", "1.3501", "1.3388", "1.3299"];
    let quotes_daily = ["0.7441", "0.7519", "0.8", "0.7402", "0.7604"];
    let mut cal = Vec::new();
    if let Some(obj) = v["cal"].as_object() {
        for (k, val) in obj {
            let d: i64 = k.parse().unwrap();
            if val.as_i64().unwrap_or(0) != 0 && d >= 0 {
                let real = base + d;
                let q = if date_of(real).year() >= 2017 { quotes_daily[(d as usize) % 5] } else { quotes_noon[(d as usize) % 5] };
                // make every day's quote distinct so that the source day of an answer is visible
                cal.push((real, format!("{}{}", q, d % 10)));
            }
        }
    } else if let Some(arr) = v["cal"].as_array() {
        for (i, val) in arr.iter().enumerate() {
            let _ = (i, val);
        }
    }
    let events: Vec<Value> = v["events"]
        .as_array()
        .unwrap()
        .iter()
        .map(|e| {
            let mut e = e.clone();
            if e["ev"] == "run" {
                e["today"] = json!(base + e["today"].as_i64().unwrap());
            } else {
                e["d"] = json!(base + e["d"].as_i64().unwrap());
            }
            e
        })
        .collect();
    RatesCase { id: format!("mcrates-{}", n), cal, events, cache: if n % 2 == 0 { "csv".into() } else { "mem".into() }, tags: json!({"mc": true}) }
}

/// seeded random cases on the real calendar: weekdays with holidays and long gaps, several runs on
/// successive days over one cache, look-ups around year ends, the cached range's end and today
pub fn gen_rates_case(seed: u64, k: u64) -> RatesCase {
    let mut rng = StdRng::seed_from_u64(seed.wrapping_mul(0x2545_F491_4F6C_DD1D).wrapping_add(k));
    let y0 = [2015, 2016, 2016, 2017, 2019, 2023][rng.gen_range(0..6)];
    let start = day_of(time::Date::from_calendar_date(y0, time::Month::November, 1).unwrap()) + rng.gen_range(0..40);
    let span = rng.gen_range(40..120);
    let mut cal = Vec::new();
    let mut d = start - 12;
    let mut skip_until = 0;
    while d <= start + span {
        let wd = date_of(d).weekday().number_days_from_monday();
        if d >= skip_until && wd < 5 && !rng.gen_bool(0.06) {
            let noon = date_of(d).year() < 2017;
            let q = if noon { Decimal::new(rng.gen_range(12000..14500), 4) } else { Decimal::new(rng.gen_range(6800..8300), 4) };
            cal.push((d, q.to_string()));
        }
        if rng.gen_bool(0.03) {
            // an outage of 6..10 days without quotes
            skip_until = d + rng.gen_range(6..11);
        }
        d += 1;
    }
    let mut events = Vec::new();
    let mut today = start + rng.gen_range(5..span / 2);
    let nruns = rng.gen_range(1..4);
    let mut last_run: Option<(i64, bool)> = None;
    for _ in 0..nruns {
        // a rate that was out stays out: a later run on the same day cannot see less
        let tp = rng.gen_bool(0.4) || matches!(last_run, Some((t, true)) if t == today);
        last_run = Some((today, tp));
        events.push(json!({"ev": "run", "today": today, "todayPub": tp, "force": rng.gen_bool(0.15), "wr": !rng.gen_bool(0.12)}));
        let nl = rng.gen_range(1..6);
        for _ in 0..nl {
            let d = match rng.gen_range(0..10) {
                0..=2 => today - rng.gen_range(0..4),
                3 => today + rng.gen_range(0..3),
                4..=5 => {
                    // around the year end inside the span, if any
                    let ye = day_of(time::Date::from_calendar_date(date_of(start).year(), time::Month::December, 31).unwrap());
                    ye + rng.gen_range(-3..9)
                }
                _ => start + rng.gen_range(0..span),
            };
            events.push(json!({"ev": "lookup", "d": d}));
        }
        today += [0, 0, 1, 2, 7, 10, 30][rng.gen_range(0..7)];
    }
    RatesCase { id: format!("rates-{}-{}", seed, k), cal, events, cache: if rng.gen_bool(0.7) { "csv".into() } else { "mem".into() }, tags: json!({}) }
}

// ---------------------------------------------------------------------------------------------
// row-level rules of C12: which rate a row ends up with
// ---------------------------------------------------------------------------------------------
#[derive(Clone, Debug, Deserialize, Serialize)]
pub struct RowRatesCase {
    pub id: String,
    pub cal: Vec<(i64, String)>,
    pub today: i64,
    pub rows: Vec<Row>,
}

pub fn gen_rowrates_case(seed: u64, k: u64) -> RowRatesCase {
    let mut rng = StdRng::seed_from_u64(seed.wrapping_mul(0x9E37_79B9).wrapping_add(k).wrapping_add(77));
    let base = gen_rates_case(seed ^ 0xabc, k);
    let lo = base.cal.first().map(|c| c.0).unwrap_or(17000);
    let hi = base.cal.last().map(|c| c.0).unwrap_or(17100);
    let today = hi - rng.gen_range(0..10);
    let curs = ["", "CAD", "USD", "usd", "EUR", "USD", "USD"];
    let rates = ["", "", "1", "1.0", "1.3071", "0.75"];
    let n = rng.gen_range(1..5);
    let mut rows = Vec::new();
    let mut held = 0;
    for i in 0..n {
        let td = lo + 8 + rng.gen_range(0..(today - lo - 8).max(1)) + if rng.gen_bool(0.05) { 20 } else { 0 };
        let buy = held == 0 || rng.gen_bool(0.6);
        held += 1;
        let mut r = Row {
            sec: "FOO".into(),
            td,
            sd: td + rng.gen_range(0..3),
            act: if buy { "Buy".into() } else { "Sell".into() },
            af: String::new(),
            q: Num::S(if buy { "100".into() } else { "1".into() }),
            p: Num::S(format!("{}", 10 + i)),
            c: Num::S(["", "0", "9.99"][rng.gen_range(0..3)].into()),
            cur: curs[rng.gen_range(0..curs.len())].into(),
            r: Num::S(rates[rng.gen_range(0..rates.len())].into()),
            ccur: String::new(),
            rc: Num::default(),
            sfl: String::new(),
            split: String::new(),
            memo: String::new(),
        };
        if rng.gen_bool(0.35) {
            r.ccur = curs[rng.gen_range(0..curs.len())].into();
            r.rc = Num::S(rates[rng.gen_range(0..rates.len())].into());
        }
        rows.push(r);
    }
    rows.sort_by_key(|r| r.sd);
    RowRatesCase { id: format!("rowrates-{}-{}", seed, k), cal: base.cal, today, rows }
}

pub fn rowrates_segment(case: &RowRatesCase) -> Value {
    use acb::app::run_acb_app_to_delta_models;
    use acb::portfolio::io::tx_csv::TxCsvParseOptions;
    use acb::portfolio::TxActionSpecifics;
    use acb::util::rw::DescribedReader;
    let remote = Rc::new(RefCell::new(Remote { cal: case.cal.iter().cloned().collect(), today: case.today, today_pub: false, requests: vec![] }));
    set_todays_date_for_test(date_of(case.today));
    let res = catch_unwind(AssertUnwindSafe(|| {
        let loader = RateLoader::new(
            false,
            Box::new(InMemoryRatesCache::new()),
            JsonRemoteRateLoader::new_boxed(Box::new(MockBoc(remote.clone()))),
            WriteHandle::empty_write_handle(),
        );
        async_std::task::block_on(run_acb_app_to_delta_models(
            vec![DescribedReader::from_string("rows.csv".into(), csv_text(&case.rows))],
            Default::default(),
            &TxCsvParseOptions::default(),
            loader,
            WriteHandle::empty_write_handle(),
        ))
    }));
    let rows: Vec<Value> = case
        .rows
        .iter()
        .enumerate()
        .map(|(i, r)| {
            json!({"idx": i, "td": r.td, "act": norm_act(&r.act), "cur": r.cur.trim().to_uppercase(), "hasR": !r.r.is_empty(),
                   "r": dj(&r.r.dec().unwrap_or_default()), "ccur": r.ccur.trim().to_uppercase(), "hasRc": !r.rc.is_empty(),
                   "rc": dj(&r.rc.dec().unwrap_or_default())})
        })
        .collect();
    let cal: Vec<Value> = case.cal.iter().map(|(d, q)| json!([d, dj(&q.parse::<Decimal>().unwrap_or_default()), date_of(*d).year() >= 2017])).collect();
    let mut used = Vec::new();
    let (status, msg) = match res {
        Ok(Ok(map)) => {
            for (_, dl) in map {
                for d in dl.deltas_or_partial_deltas() {
                    let (r, rc) = match &d.tx.action_specifics {
                        TxActionSpecifics::Buy(b) => (*b.tx_currency_and_rate.exchange_rate, *b.commission_currency_and_rate().exchange_rate),
                        TxActionSpecifics::Sell(b) => (*b.tx_currency_and_rate.exchange_rate, *b.commission_currency_and_rate().exchange_rate),
                        _ => continue,
                    };
                    used.push(json!({"idx": d.tx.read_index, "r": dj(&r), "rc": dj(&rc)}));
                }
            }
            ("ok", String::new())
        }
        Ok(Err(e)) => ("error", e),
        Err(p) => ("panic", panic_text(p)),
    };
    json!({"id": case.id, "cal": cal, "today": case.today, "rows": rows, "status": status, "msg": clean(&msg), "used": used})
}
