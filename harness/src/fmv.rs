//! Property C20: allocation tables composed by TLC (module MC_Fmv) are rendered as statement
//! pages - as plain text and as real PDF documents built with lopdf - and read back by the real
//! extractor; (page count, hint) combinations emitted by MC_PageIter are run through the real
//! `safe_page_chunks_with_remainder*` and `OptimizedPageIter` on real n-page documents; statements
//! (month on page m, table on page t) go through the library pipeline and the real
//! `questrade-statement-fmv` binary.

use std::panic::{catch_unwind, AssertUnwindSafe};
use std::path::Path;
use std::sync::Arc;

use acb::peripheral::pdf::LazyPageTextVec;
use acb::peripheral::questrade_statement_fmv_impl::{parse_statement_text, StatementFmvs};
use lopdf::content::{Content, Operation};
use lopdf::{dictionary, Document, Object, Stream};
use serde_json::{json, Value};

use crate::ledger::clean;
use crate::model::*;
use crate::proc::{exe_dir, run_proc};

const BULLET: char = '\u{25A0}';

/// A PDF whose pages carry the given lines of text.  The bullet (U+25A0) is made available as byte
/// 128 through an /Encoding /Differences entry (glyph "filledbox"), so that the text pdf-extract
/// recovers contains the bullet the real statements have.
pub fn make_pdf(pages: &[String]) -> Document {
    let mut doc = Document::with_version("1.5");
    let pages_id = doc.new_object_id();
    let font_id = doc.add_object(dictionary! {
        "Type" => "Font",
        "Subtype" => "Type1",
        "BaseFont" => "Courier",
        "Encoding" => dictionary! {
            "Type" => "Encoding",
            "BaseEncoding" => "WinAnsiEncoding",
            "Differences" => vec![Object::Integer(128), Object::Name(b"filledbox".to_vec())],
        },
    });
    let resources_id = doc.add_object(dictionary! { "Font" => dictionary! { "F1" => font_id, }, });
    let mut kids: Vec<Object> = Vec::new();
    for text in pages {
        let mut ops = vec![
            Operation::new("BT", vec![]),
            Operation::new("Tf", vec!["F1".into(), 10.into()]),
            Operation::new("TL", vec![14.into()]),
            Operation::new("Td", vec![50.into(), 750.into()]),
        ];
        for l in text.lines() {
            let bytes: Vec<u8> = l.chars().map(|c| if c == BULLET { 128u8 } else { c as u8 }).collect();
            ops.push(Operation::new("Tj", vec![Object::String(bytes, lopdf::StringFormat::Literal)]));
            ops.push(Operation::new("T*", vec![]));
        }
        ops.push(Operation::new("ET", vec![]));
        let content_id = doc.add_object(Stream::new(dictionary! {}, Content { operations: ops }.encode().unwrap()));
        let page_id = doc.add_object(dictionary! { "Type" => "Page", "Parent" => pages_id, "Contents" => content_id, });
        kids.push(page_id.into());
    }
    let n = kids.len() as i64;
    doc.objects.insert(
        pages_id,
        Object::Dictionary(dictionary! {
            "Type" => "Pages",
            "Kids" => kids,
            "Count" => n,
            "Resources" => resources_id,
            "MediaBox" => vec![0.into(), 0.into(), 595.into(), 842.into()],
        }),
    );
    let catalog_id = doc.add_object(dictionary! { "Type" => "Catalog", "Pages" => pages_id, });
    doc.trailer.set("Root", catalog_id);
    doc
}

/// the document as the tool sees it: written out and loaded again
fn reload(doc: &mut Document) -> Document {
    let mut buf = Vec::new();
    doc.save_to(&mut buf).expect("save pdf");
    Document::load_mem(&buf).expect("reload pdf")
}

fn tool_hints() -> Vec<Vec<u32>> {
    vec![vec![1, 7], vec![6, 8]]
}

const MONTHS: [&str; 12] = ["January", "February", "March", "April", "May", "June", "July", "August", "September", "October", "November", "December"];

fn month_line(y: i32, m: u8, d: u8, variant: u64) -> String {
    let name = MONTHS[(m - 1) as usize];
    match variant % 3 {
        0 => format!("Account #:  1234 Current month:  {} {}, {}", name, d, y),
        1 => format!("Leading text Current month: {} {:02}, {} trailing text", &name[..3], d, y),
        _ => format!("CURRENT MONTH:   {} {}, {}", name.to_uppercase(), d, y),
    }
}

fn obs_of(res: Result<StatementFmvs, String>) -> Value {
    match res {
        Ok(st) => json!({
            "ok": true, "err": "",
            "secs": st.fmvs.iter().map(|f| json!({
                "desc": f.security_desc.split_whitespace().collect::<Vec<_>>(),
                "alloc": dj(&f.allocation), "value": dj(&f.fmv)})).collect::<Vec<_>>(),
            "total": dj(&st.total),
            "month": [st.month_date.year(), st.month_date.month() as u8, st.month_date.day()]}),
        Err(e) => json!({"ok": false, "err": clean(&e), "secs": [], "total": dzero(), "month": [0, 0, 0]}),
    }
}

/// the library pipeline of the tool on a loaded document (parse_statement itself is private):
/// hints -> safe chunks -> optimized iterator -> parse_statement_text
fn pipeline(doc: Document, parallel: bool) -> (Value, bool) {
    let r = catch_unwind(AssertUnwindSafe(|| {
        let groups = LazyPageTextVec::safe_page_chunks_with_remainder(&doc, &tool_hints());
        let mut lazy = LazyPageTextVec::new(Arc::new(doc), parallel);
        let it = lazy.optimized_iter(groups);
        parse_statement_text(it.map(|(_, txt)| txt))
    }));
    match r {
        Ok(res) => (obs_of(res), false),
        Err(_) => (obs_of(Err("panic".into())), true),
    }
}

fn tok_str(t: &Value) -> String {
    t["s"].as_str().unwrap().to_string()
}

/// render the abstract lines TLC produced (module Fmv, Render) as text; `variant` picks indentation,
/// token spacing and blank lines
fn render_lines(lines: &[Value], variant: u64, ascii: bool) -> Vec<String> {
    let mut out = Vec::new();
    for (i, ln) in lines.iter().enumerate() {
        let toks: Vec<String> = ln["toks"].as_array().unwrap().iter().map(tok_str).collect();
        let sep = if variant % 2 == 1 && !ln["header"].as_bool().unwrap() { "  " } else { " " };
        let mut s = toks.join(sep);
        if ln["header"].as_bool().unwrap() && !ascii && variant % 3 == 0 {
            s = "ALLOCATION (%)\u{b2} MARKET VALUE ($)\u{b3}".to_string();
        }
        if ln["bullet"].as_bool().unwrap() {
            if variant % 4 >= 2 {
                out.push(String::new());
            }
            s = format!("{}{}{}", BULLET, if variant % 5 == 0 { "" } else { " " }, s);
        }
        let indent = if variant % 2 == 0 { "    " } else { "" };
        let trail = if (variant + i as u64) % 3 == 0 { "  " } else { "" };
        out.push(format!("{}{}{}", indent, s, trail));
    }
    out
}

pub fn table_record(case: &Value, n: u64, seed: u64) -> Value {
    let variant = n.wrapping_mul(2654435761).wrapping_add(seed) >> 3;
    let lines = case["lines"].as_array().unwrap();
    let (y, m, d) = (2020 + (variant % 6) as i32, 1 + (variant % 12) as u8, 1 + (variant % 28) as u8);
    let mut runs = Vec::new();
    let mut fed = Vec::new();
    for via in ["text", "pdf"] {
        let ascii = via == "pdf";
        let body = render_lines(lines, variant, ascii);
        let marker = if variant % 2 == 0 { "Securities Owned\n\nCombined in (CAD)" } else { "Securities Owned Combined in (CAD)" };
        let month_page = format!("Leading text\n{}\n", month_line(y, m, d, variant));
        let fmv_page = format!("Some page header\n{}\n{}\n", marker, body.join("\n"));
        // one statement in three also has the US-dollar section, on the page before: only the table
        // "Combined in (CAD)" is the one to be read
        let usd_page = format!(
            "Some page header\nSecurities Owned Combined in (USD)\nALLOCATION (%) MARKET VALUE ($)\n{b} USD THING (UUU) 100.0 7,777.0\n100.0 7,777.0\n",
            b = BULLET
        );
        let with_usd = variant % 3 == 0;
        let (obs, panicked) = if via == "text" {
            fed = body.clone();
            let pages = if with_usd { vec![month_page, usd_page, fmv_page] } else { vec![month_page, fmv_page] };
            match catch_unwind(AssertUnwindSafe(|| parse_statement_text(pages.iter()))) {
                Ok(r) => (obs_of(r), false),
                Err(_) => (obs_of(Err("panic".into())), true),
            }
        } else {
            let mut doc = if with_usd { make_pdf(&[month_page, usd_page, fmv_page]) } else { make_pdf(&[month_page, fmv_page]) };
            pipeline(reload(&mut doc), variant % 2 == 1)
        };
        runs.push(json!({"via": via, "obs": obs, "panicked": panicked}));
    }
    json!({"id": format!("tab-{}", n), "kind": "tab", "table": case["table"], "lines": case["lines"], "fed": fed,
           "month": [y, m, d], "runs": runs})
}

fn page_text(k: u32) -> String {
    format!("THIS IS PAGE {} OF THE DOCUMENT\nsecond line of page {}\n", k, k)
}
fn page_of_text(t: &str) -> i64 {
    regex::Regex::new(r"THIS IS PAGE (\d+) OF").unwrap().captures(t).and_then(|c| c[1].parse().ok()).unwrap_or(0)
}

fn groups_json(g: &Vec<Vec<u32>>) -> Value {
    json!(g)
}

pub fn pages_record(case: &Value, n: u64) -> Value {
    let np = case["n"].as_u64().unwrap() as u32;
    let hints: Vec<Vec<u32>> = case["hints"].as_array().unwrap().iter().map(|g| g.as_array().unwrap().iter().map(|p| p.as_u64().unwrap() as u32).collect()).collect();
    let groups_pn = LazyPageTextVec::safe_page_chunks_with_remainder_pn(np, &hints);
    let texts: Vec<String> = (1..=np).map(page_text).collect();
    let mut doc0 = make_pdf(&texts);
    let doc = reload(&mut doc0);
    let groups_doc = LazyPageTextVec::safe_page_chunks_with_remainder(&doc, &hints);
    let mut runs = Vec::new();
    for (mode, parallel) in [("sync", false), ("async", true)] {
        let mut yielded: Vec<(u32, i64)> = Vec::new();
        let d = doc.clone();
        let g = groups_doc.clone();
        let r = catch_unwind(AssertUnwindSafe(|| {
            let mut lazy = LazyPageTextVec::new(Arc::new(d), parallel);
            for (pn, txt) in lazy.optimized_iter(g) {
                yielded.push((pn, page_of_text(&txt)));
            }
            lazy.last_error.clone().unwrap_or_default()
        }));
        runs.push(json!({"mode": mode, "yielded": yielded.iter().map(|(p, t)| json!([p, t])).collect::<Vec<_>>(),
                         "panicked": r.is_err(), "error": clean(&r.unwrap_or_default())}));
    }
    json!({"id": format!("pages-{}", n), "kind": "pages", "n": np, "hints": case["hints"], "groups_pn": groups_json(&groups_pn),
           "groups_doc": groups_json(&groups_doc), "runs": runs})
}

fn stmt_table(p: u32) -> String {
    format!(
        "Securities Owned\nCombined in (CAD)\nALLOCATION (%) MARKET VALUE ($)\n{b} BLABLA ETF (BLABLA) 80.0 80,000.0\n{b} SOME GIC 01/01/2024\n4.00% 1Y DUE 01/01/2024 (XXXXXX)\n20.0 20,000.0\n100.0 {}.00\nfootnote text\n",
        1000 + p,
        b = BULLET
    )
}

pub fn stmt_record(case: &Value, n: u64, scratch: &Path) -> Value {
    let np = case["n"].as_u64().unwrap() as u32;
    let set = |k: &str| -> Vec<u32> { case[k].as_array().unwrap().iter().map(|p| p.as_u64().unwrap() as u32).collect() };
    let (months, tables) = (set("month"), set("table"));
    let mut texts = Vec::new();
    for p in 1..=np {
        let mut t = page_text(p);
        if months.contains(&p) {
            t += &format!("Account #:  1234 Current month:  March {}, 2024\n", p);
        }
        if tables.contains(&p) {
            t += &stmt_table(p);
        }
        texts.push(t);
    }
    let mut doc0 = make_pdf(&texts);
    let dir = scratch.join(format!("stmt{}", n));
    let _ = std::fs::create_dir_all(&dir);
    let path = dir.join("statement.pdf");
    doc0.save(&path).expect("write pdf");
    let (lib, lib_panicked) = pipeline(Document::load(&path).expect("load pdf"), n % 2 == 1);
    let p = run_proc(&exe_dir().join("fmv-app"), &[path.to_string_lossy().to_string()], &dir, None, None, 120);
    let stdout = String::from_utf8_lossy(&p.stdout).to_string();
    let stderr = String::from_utf8_lossy(&p.stderr).to_string();
    // "Month,Total FMV (CAD),..." then one row per statement
    let row: Vec<String> = csv::ReaderBuilder::new().has_headers(true).flexible(true).from_reader(stdout.as_bytes()).records().flatten().next()
        .map(|r| r.iter().map(|s| s.trim().to_string()).collect()).unwrap_or_default();
    let _ = std::fs::remove_dir_all(&dir);
    json!({"id": format!("stmt-{}", n), "kind": "stmt", "n": np, "month": months, "table": tables,
           "lib": lib, "lib_panicked": lib_panicked,
           "cli": {"exit": p.code, "panicked": stderr.contains("panicked at"), "stderr": clean(&stderr.chars().take(200).collect::<String>()),
                   "month": row.get(0).cloned().unwrap_or_default(), "total": row.get(1).cloned().unwrap_or_default()}})
}

/// seeded random (page count, hints) beyond the model checker's bounds
pub fn gen_pages_case(seed: u64, k: u64) -> Value {
    use rand::{Rng, SeedableRng};
    let mut rng = rand::rngs::StdRng::seed_from_u64(seed.wrapping_mul(7919).wrapping_add(k));
    let np = rng.gen_range(0..13u32);
    let ng = rng.gen_range(0..4);
    let hints: Vec<Vec<u32>> = (0..ng).map(|_| (0..rng.gen_range(0..5)).map(|_| rng.gen_range(0..np + 3)).collect()).collect();
    json!({"id": "pages", "kind": "pages", "n": np, "hints": hints})
}
