//! Paired executions for the relational properties C15 (split neutrality) and C16 (opening position
//! = opening purchase): derive a variant input from a base case, run both through acb, and log the
//! two recorded segments side by side.  The relation itself (between the two inputs and between the
//! two recorded ledgers) is stated and checked in spec/Trace_Pair.tla.

use rand::rngs::StdRng;
use rand::{Rng, SeedableRng};
use rust_decimal::Decimal;
use serde_json::{json, Value};

use crate::ledger::ledger_segments;
use crate::model::*;

fn seg_for<'a>(segs: &'a [Value], sec: &str) -> Option<&'a Value> {
    segs.iter().find(|s| s["sec"] == sec)
}

fn sorted_single_file(case: &Case, sec: &str) -> Vec<Row> {
    let mut rows: Vec<(usize, Row)> = Vec::new();
    let mut idx = 0;
    for f in &case.files {
        for r in f {
            if r.sec == sec {
                rows.push((idx, r.clone()));
            }
            idx += 1;
        }
    }
    rows.sort_by_key(|(i, r)| (r.sd, *i));
    rows.into_iter().map(|(_, r)| r).collect()
}

fn blank_row(sec: &str, day: i64) -> Row {
    Row {
        sec: sec.to_string(),
        td: day,
        sd: day,
        act: String::new(),
        af: String::new(),
        q: Num::default(),
        p: Num::default(),
        c: Num::default(),
        cur: String::new(),
        r: Num::default(),
        ccur: String::new(),
        rc: Num::default(),
        sfl: String::new(),
        split: String::new(),
        memo: String::new(),
    }
}

fn num(d: Decimal) -> Num {
    Num::S(d.normalize().to_string())
}

/// C16: (a) the case with its opening position, (b) the same rows preceded by a purchase by the
/// default affiliate of that many shares for that total cost, dated 40 days before the first row.
pub fn opening_pairs(case: &Case) -> Vec<Value> {
    let mut out = Vec::new();
    // securities WITHOUT an opening position: an opening position given for some other security
    // must change nothing
    let secs: std::collections::BTreeSet<String> = case.files.iter().flatten().map(|r| r.sec.clone()).collect();
    for sec in secs.iter().filter(|s| !case.opening.contains_key(*s)) {
        let rows = sorted_single_file(case, sec);
        let a_case = Case { id: format!("{}/n", case.id), files: vec![rows.clone()], opening: Default::default(), tags: case.tags.clone(), hdr: Vec::new(), raw: Vec::new() };
        let mut b_case = a_case.clone();
        b_case.id = format!("{}/o", case.id);
        b_case.opening.insert("OTHER.SEC".into(), (Num::S("17".into()), Num::S("1234.5".into())));
        let sa = ledger_segments(&a_case);
        let sb = ledger_segments(&b_case);
        if let (Some(a), Some(b)) = (seg_for(&sa, sec), seg_for(&sb, sec)) {
            out.push(json!({"id": case.id, "kind": "same", "cls": "opening", "a": a, "b": b, "k": 0, "post": dzero(), "pre": dzero(), "perAff": false}));
        }
    }
    for (sec, (n, c)) in &case.opening {
        let rows = sorted_single_file(case, sec);
        if rows.is_empty() || n.dec().map(|d| d.is_zero()).unwrap_or(true) {
            continue;
        }
        let a_case = Case { id: format!("{}/a", case.id), files: vec![rows.clone()], opening: [(sec.clone(), (n.clone(), c.clone()))].into_iter().collect(), tags: case.tags.clone(), hdr: Vec::new(), raw: Vec::new() };
        let first = rows.iter().map(|r| r.sd.min(r.td)).min().unwrap();
        let mut buy = blank_row(sec, first - 40);
        buy.act = "Buy".into();
        buy.q = n.clone();
        buy.p = Num::S("0".into());
        buy.c = c.clone();
        let mut brow = vec![buy];
        brow.extend(rows.iter().cloned());
        let b_case = Case { id: format!("{}/b", case.id), files: vec![brow], opening: Default::default(), tags: case.tags.clone(), hdr: Vec::new(), raw: Vec::new() };
        let sa = ledger_segments(&a_case);
        let sb = ledger_segments(&b_case);
        if let (Some(a), Some(b)) = (seg_for(&sa, sec), seg_for(&sb, sec)) {
            out.push(json!({"id": case.id, "kind": "opening", "cls": "opening", "a": a, "b": b, "k": 0, "post": dzero(), "pre": dzero(), "perAff": false}));
        }
        // the same pair for a security whose name is not all upper case (the opening position must find it)
        let low = format!("{}{}.b", &sec[..1].to_uppercase(), sec[1..].to_lowercase());
        let rename = |c: &Case| -> Case {
            let mut d = c.clone();
            for f in d.files.iter_mut() {
                for r in f.iter_mut() {
                    r.sec = low.clone();
                }
            }
            d.opening = c.opening.iter().map(|(_, v)| (low.clone(), v.clone())).collect();
            d.id = format!("{}~lc", c.id);
            d
        };
        let (la, lb) = (ledger_segments(&rename(&a_case)), ledger_segments(&rename(&b_case)));
        if let (Some(a), Some(b)) = (seg_for(&la, &low), seg_for(&lb, &low)) {
            out.push(json!({"id": case.id, "kind": "opening", "cls": "opening", "a": a, "b": b, "k": 0, "post": dzero(), "pre": dzero(), "perAff": false}));
        }
        // an opening position of another security must change nothing
        let mut c_case = a_case.clone();
        c_case.id = format!("{}/c", case.id);
        c_case.opening.insert("OTHER.SEC".into(), (Num::S("17".into()), Num::S("1234.5".into())));
        let sc = ledger_segments(&c_case);
        if let (Some(a), Some(cc)) = (seg_for(&sa, sec), seg_for(&sc, sec)) {
            out.push(json!({"id": case.id, "kind": "same", "cls": "opening", "a": a, "b": cc, "k": 0, "post": dzero(), "pre": dzero(), "perAff": false}));
        }
    }
    out
}

const RATIOS: [(i64, i64); 9] = [(2, 1), (1, 2), (5, 2), (2, 5), (4, 1), (1, 4), (10, 1), (4, 3), (7, 3)];

/// C15: (a) a split-free history, (b) the same history with a post-for-pre split inserted before
/// row k (one row for all affiliates, or one per affiliate) and every later share quantity
/// multiplied / per-share amount divided by post/pre.
pub fn split_pairs(case: &Case, seed: u64) -> Vec<Value> {
    let mut out = Vec::new();
    let mut rng = StdRng::seed_from_u64(seed ^ 0x5157);
    let secs: std::collections::BTreeSet<String> = case.files.iter().flatten().map(|r| r.sec.clone()).collect();
    for sec in secs {
        let rows = sorted_single_file(case, &sec);
        if rows.is_empty() || rows.iter().any(|r| norm_act(&r.act) == "Split" || !r.sfl.trim().is_empty()) {
            continue;
        }
        let opening: std::collections::BTreeMap<String, (Num, Num)> =
            case.opening.iter().filter(|(s, _)| **s == sec).map(|(s, v)| (s.clone(), v.clone())).collect();
        let a_case = Case { id: format!("{}/a", case.id), files: vec![rows.clone()], opening: opening.clone(), tags: case.tags.clone(), hdr: Vec::new(), raw: Vec::new() };
        let sa = ledger_segments(&a_case);
        let a = match seg_for(&sa, &sec) {
            Some(a) if a["status"] == "ok" => a.clone(),
            _ => continue,
        };
        // two random (position, ratio) choices, and for short histories every position with a forward ratio that
        // is a repeating decimal (4-for-3): the restated quantities are exact only for multiples of three
        let mut choices: Vec<(usize, (i64, i64), bool)> = (0..2).map(|_| (rng.gen_range(0..=rows.len()), RATIOS[rng.gen_range(0..RATIOS.len())], rng.gen_bool(0.4))).collect();
        if rows.len() <= 4 {
            for k in 0..rows.len() {
                choices.push((k, (4, 3), k % 2 == 1));
            }
        }
        for (k, (post, pre), per_aff) in choices {
            let (postd, pred) = (Decimal::from(post), Decimal::from(pre));
            let day = if k < rows.len() { rows[k].sd } else { rows[rows.len() - 1].sd };
            let mut brow: Vec<Row> = rows[..k].to_vec();
            let ratio = format!("{}-for-{}", post, pre);
            // fractional results are fine in the restated history: allow them in the split too
            let ratio = if post < pre { format!("{}.0-for-{}.0", post, pre) } else { ratio };
            if per_aff {
                let mut afs: std::collections::BTreeSet<String> = rows.iter().map(|r| affiliate_id(&r.af).0).collect();
                if !opening.is_empty() {
                    afs.insert("default".into());
                }
                for a in afs {
                    let mut s = blank_row(&sec, day);
                    s.act = "Split".into();
                    s.split = ratio.clone();
                    s.af = if a.ends_with(" (R)") { a.clone() } else { a.clone() };
                    brow.push(s);
                }
            } else {
                let mut s = blank_row(&sec, day);
                s.act = "Split".into();
                s.split = ratio.clone();
                brow.push(s);
            }
            let mut representable = true;
            for r in &rows[k..] {
                let mut r2 = r.clone();
                match norm_act(&r.act) {
                    "Buy" | "Sell" | "Sfla" => {
                        // exactly: multiply first, then divide
                        let q = r.q.dec().unwrap_or_default() * postd / pred;
                        let p = r.p.dec().unwrap_or_default() * pred / postd;
                        if q * pred != r.q.dec().unwrap_or_default() * postd || p * postd != r.p.dec().unwrap_or_default() * pred || q.scale() > 10 || p.scale() > 12 {
                            representable = false;
                        }
                        r2.q = num(q);
                        r2.p = num(p);
                    }
                    "Roc" => {
                        let p = r.p.dec().unwrap_or_default() * pred / postd;
                        if p * postd != r.p.dec().unwrap_or_default() * pred || p.scale() > 12 {
                            representable = false;
                        }
                        r2.p = num(p);
                    }
                    _ => {}
                }
                brow.push(r2);
            }
            if !representable {
                continue;
            }
            let b_case = Case { id: format!("{}/b{}", case.id, k), files: vec![brow], opening: opening.clone(), tags: case.tags.clone(), hdr: Vec::new(), raw: Vec::new() };
            let sb = ledger_segments(&b_case);
            if let Some(b) = seg_for(&sb, &sec) {
                out.push(json!({"id": case.id, "kind": "split", "cls": "split", "a": a, "b": b, "k": k,
                    "post": dj(&Decimal::from(post)), "pre": dj(&Decimal::from(pre)), "perAff": per_aff}));
            }
        }
    }
    out
}

fn full_model(case: &Case) -> Option<Value> {
    match crate::report::render(case, true, false) {
        Ok(r) => Some(crate::report::model_json(&r)),
        Err(_) => None,
    }
}

/// record relating the report of a whole input to the reports of its parts: aggregate gains add up,
/// every security's table (figures, footer, errors) is the same in the whole and in its part
fn aggsum_record(id: &str, cls: &str, whole_case: &Case, parts: &[Case]) -> Option<Value> {
    let whole = full_model(whole_case)?;
    let mut pv = Vec::new();
    for p in parts {
        pv.push(full_model(p)?);
    }
    Some(json!({"id": id, "kind": "aggsum", "cls": cls, "whole": whole, "parts": pv,
                "a": {"sec": "*", "deltas": []}, "b": {"sec": "*", "deltas": []}}))
}

/// C08: every security alone versus within the whole input
pub fn indep_pairs(case: &Case) -> Vec<Value> {
    let mut out = Vec::new();
    let secs: std::collections::BTreeSet<String> = case.files.iter().flatten().map(|r| r.sec.clone()).collect();
    if secs.len() < 2 {
        // nothing to take apart, but the aggregate must still be the security's own totals
        if ledger_segments(case).iter().all(|s| s["status"] == "ok" || s["status"] == "rejected") {
            if let Some(r) = aggsum_record(&case.id, "independent", case, std::slice::from_ref(case)) {
                out.push(r);
            }
        }
        return out;
    }
    let whole = ledger_segments(case);
    let mut parts = Vec::new();
    for sec in &secs {
        let files: Vec<Vec<Row>> = case.files.iter().map(|f| f.iter().filter(|r| r.sec == *sec).cloned().collect::<Vec<Row>>()).filter(|f: &Vec<Row>| !f.is_empty()).collect();
        let opening = case.opening.iter().filter(|(s, _)| *s == sec).map(|(s, v)| (s.clone(), v.clone())).collect();
        let part = Case { id: format!("{}/{}", case.id, sec), files, opening, tags: case.tags.clone(), hdr: Vec::new(), raw: Vec::new() };
        let sp = ledger_segments(&part);
        if let (Some(a), Some(b)) = (seg_for(&sp, sec), seg_for(&whole, sec)) {
            if a["status"] != "skipped" && b["status"] != "skipped" && a["status"] != "dupsplit" && b["status"] != "dupsplit" {
                out.push(json!({"id": case.id, "kind": "same", "cls": "independent", "a": a, "b": b, "k": 0, "post": dzero(), "pre": dzero(), "perAff": false}));
            }
        }
        parts.push(part);
    }
    if whole.iter().all(|s| s["status"] == "ok" || s["status"] == "rejected") {
        if let Some(r) = aggsum_record(&case.id, "independent", case, &parts) {
            out.push(r);
        }
    }
    out
}

/// the canonical layout of an input: one file, canonical header, rows of the concatenation stably
/// sorted by (settlement day, security) - itself an admissible re-layout
pub fn canonical_layout(case: &Case) -> Case {
    let mut rows: Vec<Row> = case.files.iter().flatten().cloned().collect();
    rows.sort_by(|a, b| (a.sd, &a.sec).cmp(&(b.sd, &b.sec)));
    Case { id: format!("{}/canon", case.id), files: vec![rows], opening: case.opening.clone(), tags: case.tags.clone(), hdr: Vec::new(), raw: Vec::new() }
}

/// a random admissible re-layout: adjacent swaps that keep same-security same-day rows in order,
/// a random partition into files, a random header variant per file
pub fn random_relayout(case: &Case, seed: u64) -> Case {
    let mut rng = StdRng::seed_from_u64(seed ^ 0x1a70);
    let mut rows: Vec<Row> = case.files.iter().flatten().cloned().collect();
    let n = rows.len();
    if n >= 2 {
        for _ in 0..(4 * n) {
            let k = rng.gen_range(0..n - 1);
            if !(rows[k].sec == rows[k + 1].sec && rows[k].sd == rows[k + 1].sd) {
                rows.swap(k, k + 1);
            }
        }
    }
    let mut files: Vec<Vec<Row>> = vec![Vec::new()];
    for r in rows {
        if !files.last().unwrap().is_empty() && rng.gen_bool(0.25) {
            files.push(Vec::new());
        }
        files.last_mut().unwrap().push(r);
    }
    let hdr = files.iter().map(|_| rng.gen_range(0..6)).collect();
    Case { id: format!("{}/relaid", case.id), files, opening: case.opening.clone(), tags: case.tags.clone(), hdr, raw: Vec::new() }
}

/// C07: the input as laid out versus its canonical layout
pub fn layout_pairs(case: &Case, seed: u64, randomise: bool) -> Vec<Value> {
    let mut out = Vec::new();
    let given = if randomise { random_relayout(case, seed) } else { case.clone() };
    let canon = canonical_layout(&given);
    let sg = ledger_segments(&given);
    let sc = ledger_segments(&canon);
    for a in &sc {
        let sec = a["sec"].as_str().unwrap_or("");
        if let Some(b) = seg_for(&sg, sec) {
            out.push(json!({"id": given.id, "kind": "same", "cls": "layout", "a": a, "b": b, "k": 0, "post": dzero(), "pre": dzero(), "perAff": false,
                            "layout": {"files": given.files.iter().map(|f| f.len()).collect::<Vec<_>>(), "hdr": given.hdr}}));
        }
    }
    if sc.len() != sg.len() {
        out.push(json!({"id": given.id, "kind": "same", "cls": "layout", "a": sc.get(0), "b": {"sec": "?", "rows": [], "deltas": [], "status": "missing", "msg": "different set of securities"}, "k": 0,
                        "post": dzero(), "pre": dzero(), "perAff": false}));
    }
    if sc.iter().all(|s| s["status"] == "ok" || s["status"] == "rejected") {
        if let Some(r) = aggsum_record(&given.id, "layout", &given, &[canon]) {
            out.push(r);
        }
    }
    out
}

// ---------------------------------------------------------------------------------------------
// C10: summary round trip
// ---------------------------------------------------------------------------------------------
fn tx_to_row(tx: &acb::portfolio::Tx) -> Row {
    use acb::portfolio::TxActionSpecifics as A;
    let mut r = blank_row(&tx.security, day_of(tx.settlement_date));
    r.td = day_of(tx.trade_date);
    r.af = if tx.affiliate.is_global() { String::new() } else { tx.affiliate.name().to_string() };
    let money = |r: &mut Row, shares: rust_decimal::Decimal, aps: rust_decimal::Decimal, comm: rust_decimal::Decimal,
                 cr: &acb::portfolio::CurrencyAndExchangeRate, ccr: &Option<acb::portfolio::CurrencyAndExchangeRate>| {
        r.q = num(shares);
        r.p = num(aps);
        r.c = num(comm);
        r.cur = cr.currency.to_string();
        if !cr.is_default() {
            r.r = num(*cr.exchange_rate);
        }
        if let Some(c) = ccr {
            r.ccur = c.currency.to_string();
            if !c.is_default() {
                r.rc = num(*c.exchange_rate);
            }
        }
    };
    match &tx.action_specifics {
        A::Buy(b) => {
            r.act = "Buy".into();
            money(&mut r, *b.shares, *b.amount_per_share, *b.commission, &b.tx_currency_and_rate, &b.separate_commission_currency);
        }
        A::Sell(b) => {
            r.act = "Sell".into();
            money(&mut r, *b.shares, *b.amount_per_share, *b.commission, &b.tx_currency_and_rate, &b.separate_commission_currency);
            if let Some(s) = &b.specified_superficial_loss {
                r.sfl = format!("{}{}", s.superficial_loss.normalize(), if s.force { "!" } else { "" });
            }
        }
        A::Roc(x) => {
            r.act = "RoC".into();
            r.p = num(*x.amount_per_held_share);
            r.cur = x.tx_currency_and_rate.currency.to_string();
            if !x.tx_currency_and_rate.is_default() {
                r.r = num(*x.tx_currency_and_rate.exchange_rate);
            }
        }
        A::Sfla(x) => {
            r.act = "SfLA".into();
            r.q = num(*x.shares_affected);
            r.p = num(*x.amount_per_share);
        }
        A::Split(x) => {
            r.act = "Split".into();
            r.split = x.ratio.to_string();
        }
    }
    r
}

/// (a) the full history, (b) the summary CSV acb writes for `cut` (its literal text) followed by the
/// original rows settling after `cut`
pub fn summary_pairs(case: &Case, seed: u64) -> Vec<Value> {
    use acb::app::{run_acb_app_summary_to_model, Options};
    use acb::fx::io::testlib::new_test_rate_loader;
    use acb::portfolio::io::tx_csv::write_txs_to_csv;
    use acb::util::rw::{DescribedReader, WriteHandle};
    let mut out = Vec::new();
    let mut rng = StdRng::seed_from_u64(seed ^ 0x5c10 ^ case.id.len() as u64);
    // (a summary replaces a history; how it would combine with --symbol-base is not part of C10)
    let stripped;
    let case = if case.opening.is_empty() {
        case
    } else {
        let mut c = case.clone();
        c.opening = Default::default();
        stripped = c;
        &stripped
    };
    let sa = ledger_segments(case);
    if sa.is_empty() || sa.iter().any(|s| s["status"] != "ok") {
        return out; // C10 speaks about error-free histories
    }
    let mut days: Vec<i64> = case.files.iter().flatten().map(|r| r.sd).collect();
    days.sort();
    days.dedup();
    if days.is_empty() {
        return out;
    }
    let mut cuts: Vec<i64> = Vec::new();
    for _ in 0..3 {
        let d = days[rng.gen_range(0..days.len())];
        cuts.push(d + [0, 0, 0, 1, 5, 29, 30, -1][rng.gen_range(0..8)]);
    }
    cuts.sort();
    cuts.dedup();
    // far enough in the future for the "wait 60 days" warning not to matter
    acb::util::date::set_todays_date_for_test(date_of(days[days.len() - 1] + 400));
    for cut in cuts {
        for annual in [false, true] {
            let readers: Vec<DescribedReader> = (0..case.files.len()).map(|i| DescribedReader::from_string(format!("file{i}.csv"), case.file_text(i))).collect();
            let mut opts = Options::default();
            opts.split_annual_summary_gains = annual;
            opts.summary_mode_latest_date = Some(date_of(cut));
            let init = {
                let mut m = std::collections::HashMap::new();
                for (sec, (n, c)) in &case.opening {
                    let n = acb::util::decimal::GreaterEqualZeroDecimal::try_from(n.dec().unwrap_or_default()).unwrap();
                    let c = acb::util::decimal::GreaterEqualZeroDecimal::try_from(c.dec().unwrap_or_default()).unwrap();
                    m.insert(sec.clone(), acb::portfolio::PortfolioSecurityStatus { security: sec.clone(), share_balance: n, all_affiliate_share_balance: n, total_acb: Some(c) });
                }
                m
            };
            let res = std::panic::catch_unwind(std::panic::AssertUnwindSafe(|| {
                let (loader, _c, _r) = new_test_rate_loader(false);
                async_std::task::block_on(run_acb_app_summary_to_model(date_of(cut), readers, init, opts, loader, WriteHandle::empty_write_handle()))
            }));
            let data = match res {
                Ok(Ok(d)) => d,
                Ok(Err(_)) | Err(_) => {
                    out.push(json!({"id": case.id, "kind": "summary", "cls": "summary", "a": sa[0], "b": {"sec": "*", "rows": [], "deltas": [], "status": "error", "msg": "summary generation failed or panicked", "afs": [], "opening": {"has": false, "n": dzero(), "c": dzero()}},
                                    "cut": cut, "annual": annual, "k": 0, "post": dzero(), "pre": dzero(), "perAff": false}));
                    continue;
                }
            };
            // the summary CSV exactly as `acb --summarize-before` prints it
            let csv_txs: Vec<acb::portfolio::CsvTx> = data.txs.iter().cloned().map(acb::portfolio::CsvTx::from).collect();
            let mut buf: Vec<u8> = Vec::new();
            if !csv_txs.is_empty() && write_txs_to_csv(&csv_txs, &mut buf).is_err() {
                continue;
            }
            let text = String::from_utf8_lossy(&buf).to_string();
            // the same summary asked of the command-line program (`acb --summarize-before <date>`): the
            // option has to reach the library unchanged, so the bytes printed must be these.  Asked when
            // the date is a settlement date of the history (the inclusive boundary) and for one other
            // date in four; a run that does not end with status 0 (e.g. no rates on file) is not compared.
            if days.contains(&cut) || cut % 4 == 0 {
                let dir = crate::proc::exe_dir().join("cli_scratch").join(format!("{}_{}_{}", case.id.replace(|c: char| !c.is_ascii_alphanumeric(), "_"), cut, annual));
                let _ = std::fs::remove_dir_all(&dir);
                let home = dir.join("home");
                std::fs::create_dir_all(&home).unwrap();
                let mut args = crate::proc::write_case_files(case, &dir.join("in"));
                args.push("--summarize-before".into());
                args.push(date_str(cut));
                if annual {
                    args.push("--summarize-annual-gains".into());
                }
                let p = crate::proc::run_proc(&crate::proc::exe_dir().join("acb-app"), &args, &home, None, None, 60);
                let _ = std::fs::remove_dir_all(&dir);
                // (letter case is not compared: the spelling of an affiliate's name is the first one the
                // process has seen, and this process has read many inputs)
                if p.code == 0 && !p.timed_out && p.stdout.to_ascii_lowercase() != buf.to_ascii_lowercase() {
                    let k = p.stdout.iter().zip(buf.iter()).position(|(x, y)| x.to_ascii_lowercase() != y.to_ascii_lowercase()).unwrap_or(p.stdout.len().min(buf.len()));
                    let snip = |z: &[u8]| crate::ledger::clean(&String::from_utf8_lossy(&z[k.saturating_sub(40).min(z.len())..(k + 40).min(z.len())]));
                    out.push(json!({"id": case.id, "kind": "summary", "cls": "summary", "a": sa[0],
                                    "b": {"sec": "*", "rows": [], "deltas": [], "status": "error",
                                          "msg": format!("acb --summarize-before {} prints a summary other than the one the library makes for that date: '{}' vs '{}'", date_str(cut), snip(&p.stdout), snip(&buf)),
                                          "afs": [], "opening": {"has": false, "n": dzero(), "c": dzero()}},
                                    "cut": cut, "annual": annual, "k": 0, "post": dzero(), "pre": dzero(), "perAff": false}));
                }
            }
            let claimed: Vec<Row> = data.txs.iter().map(tx_to_row).collect();
            let tail: Vec<Row> = case.files.iter().flatten().filter(|r| r.sd > cut).cloned().collect();
            let mut files = Vec::new();
            let mut raw = Vec::new();
            if !claimed.is_empty() {
                files.push(claimed);
                raw.push(Some(text));
            }
            if !tail.is_empty() {
                files.push(tail);
                raw.push(None);
            }
            if files.is_empty() {
                continue;
            }
            let b_case = Case { id: format!("{}/sum{}{}", case.id, cut, if annual { "a" } else { "s" }), files, opening: Default::default(), tags: case.tags.clone(), hdr: Vec::new(), raw };
            let sb = ledger_segments(&b_case);
            for a in &sa {
                let sec = a["sec"].as_str().unwrap_or("");
                let b = match seg_for(&sb, sec) {
                    Some(b) => b.clone(),
                    None => json!({"sec": sec, "rows": [], "deltas": [], "status": "ok", "msg": "", "afs": a["afs"], "opening": {"has": false, "n": dzero(), "c": dzero()}}),
                };
                out.push(json!({"id": case.id, "kind": "summary", "cls": "summary", "a": a, "b": b, "cut": cut, "annual": annual,
                                "k": 0, "post": dzero(), "pre": dzero(), "perAff": false}));
            }
        }
    }
    out
}
