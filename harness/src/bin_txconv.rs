// The repository's own `tx-export-convert` main.
include!("/repo/src/bin/tx_export_convert.rs");
