//! Observation point O2: the render model and the writers (text, CSV) that the acb binary and the
//! web UI use.  One trace record per case: every dollar figure of every table, parsed, in both
//! precision modes, plus the ledger segments (O1) of the same input for cross-checking.

use std::collections::HashMap;
use std::panic::{catch_unwind, AssertUnwindSafe};

use acb::app::outfmt::csv::CsvWriter;
use acb::app::outfmt::text::TextWriter;
use acb::app::{run_acb_app_to_render_model, run_acb_app_to_writer, AppRenderResult};
use acb::fx::io::testlib::new_test_rate_loader;
use acb::portfolio::io::tx_csv::TxCsvParseOptions;
use acb::portfolio::render::RenderTable;
use acb::portfolio::PortfolioSecurityStatus;
use acb::util::rw::{DescribedReader, WriteHandle};
use rust_decimal::Decimal;
use serde_json::{json, Value};

use crate::ledger::{clean, ledger_segments, panic_text};
use crate::model::*;

fn opening_status(case: &Case) -> HashMap<String, PortfolioSecurityStatus> {
    // through the parser of the -b / web UI strings, as the front ends do
    let specs: Vec<String> = case.opening.iter().map(|(sec, (n, c))| format!("{}:{}:{}", sec, n.text(), c.text())).collect();
    acb::app::input_parse::parse_initial_status(&specs).unwrap_or_default()
}

fn readers(case: &Case) -> Vec<DescribedReader> {
    case.files
        .iter()
        .enumerate()
        .map(|(i, _rows)| DescribedReader::from_string(format!("file{i}.csv"), case.file_text(i)))
        .collect()
}

pub fn render(case: &Case, full: bool, costs: bool) -> Result<AppRenderResult, (String, String)> {
    let res = catch_unwind(AssertUnwindSafe(|| {
        let (loader, _c, _r) = new_test_rate_loader(false);
        async_std::task::block_on(run_acb_app_to_render_model(
            readers(case),
            opening_status(case),
            &TxCsvParseOptions::default(),
            full,
            costs,
            loader,
            WriteHandle::empty_write_handle(),
        ))
    }));
    match res {
        Ok(Ok(r)) => Ok(r),
        Ok(Err(e)) => Err(("error".into(), e)),
        Err(p) => Err(("panic".into(), panic_text(p))),
    }
}

/// what the two writers show for the case: (text output, csv output, stderr-like error stream)
pub fn written(case: &Case, csv: bool) -> Result<(String, String), (String, String)> {
    let res = catch_unwind(AssertUnwindSafe(|| {
        let (loader, _c, _r) = new_test_rate_loader(false);
        let (out_h, out_buf) = WriteHandle::string_buff_write_handle();
        let (err_h, err_buf) = WriteHandle::string_buff_write_handle();
        let r = if csv {
            let mut w = CsvWriter::new_to_writer(out_h);
            async_std::task::block_on(run_acb_app_to_writer(&mut w, readers(case), opening_status(case), &TxCsvParseOptions::default(), false, false, loader, err_h)).map(|_| ())
        } else {
            let mut w = TextWriter::new(out_h);
            async_std::task::block_on(run_acb_app_to_writer(&mut w, readers(case), opening_status(case), &TxCsvParseOptions::default(), false, false, loader, err_h)).map(|_| ())
        };
        let o = out_buf.borrow().as_str().to_string();
        let e = err_buf.borrow().as_str().to_string();
        (r.is_ok(), o, e)
    }));
    match res {
        Ok((_ok, o, e)) => Ok((o, e)),
        Err(p) => Err(("panic".into(), panic_text(p))),
    }
}

/// what `--csv-output-dir` leaves for the user: the contents of every file written to the directory,
/// plus the error stream
pub fn written_dir(case: &Case) -> Result<(String, String), (String, String)> {
    static SEQ: std::sync::atomic::AtomicU64 = std::sync::atomic::AtomicU64::new(0);
    let dir = std::env::temp_dir().join(format!("acbverif_csvdir_{}_{}", std::process::id(), SEQ.fetch_add(1, std::sync::atomic::Ordering::Relaxed)));
    let _ = std::fs::remove_dir_all(&dir);
    let res = catch_unwind(AssertUnwindSafe(|| {
        let (loader, _c, _r) = new_test_rate_loader(false);
        let (err_h, err_buf) = WriteHandle::string_buff_write_handle();
        let mut w = CsvWriter::new_to_output_dir(&dir.to_string_lossy().to_string()).expect("output dir");
        let r = async_std::task::block_on(run_acb_app_to_writer(&mut w, readers(case), opening_status(case), &TxCsvParseOptions::default(), false, false, loader, err_h)).map(|_| ());
        let mut o = String::new();
        let mut names: Vec<std::path::PathBuf> = std::fs::read_dir(&dir).map(|d| d.flatten().map(|e| e.path()).collect()).unwrap_or_default();
        names.sort();
        for p in names {
            o.push_str(&std::fs::read_to_string(&p).unwrap_or_default());
            o.push('\n');
        }
        let e = err_buf.borrow().as_str().to_string();
        (r.is_ok(), o, e)
    }));
    let _ = std::fs::remove_dir_all(&dir);
    match res {
        Ok((_ok, o, e)) => Ok((o, e)),
        Err(p) => Err(("panic".into(), panic_text(p))),
    }
}

/// "$1.5", "-$2", "+$3.25", "-" -> value
pub fn parse_dollar(cell: &str) -> Option<Decimal> {
    let first = cell.lines().next().unwrap_or("").trim();
    let first = first.split(' ').next().unwrap_or("");
    let (neg, rest) = if let Some(r) = first.strip_prefix("-$") {
        (true, r)
    } else if let Some(r) = first.strip_prefix("+$") {
        (false, r)
    } else if let Some(r) = first.strip_prefix('$') {
        (false, r)
    } else {
        return None;
    };
    rest.parse::<Decimal>().ok().map(|d| if neg { -d } else { d })
}

fn opt(d: Option<Decimal>) -> Value {
    match d {
        Some(v) => json!({"has": true, "v": dj(&v)}),
        None => json!({"has": false, "v": dzero()}),
    }
}

/// the "(SfL -$3.00; 1/2)" part of a Cap. Gain cell
fn parse_sfl(cell: &str) -> (Option<Decimal>, bool) {
    if let Some(i) = cell.find("(SfL ") {
        let rest = &cell[i + 5..];
        let amt = rest.split(';').next().unwrap_or("").trim().trim_end_matches('!');
        (parse_dollar(amt), rest.contains("[1]"))
    } else {
        (None, false)
    }
}

fn parse_day(s: &str) -> i64 {
    days_in_text(s).first().cloned().unwrap_or(-1)
}

fn sec_table(t: &RenderTable) -> Value {
    let rows: Vec<Value> = t
        .rows
        .iter()
        .map(|r| {
            let (sfl, over) = parse_sfl(&r[9]);
            json!({
                "td": parse_day(&r[1]), "sd": parse_day(&r[2]), "act": norm_act(&r[3]), "afName": r[14], "af": affiliate_id(&r[14]).0,
                "amount": opt(parse_dollar(&r[4])), "acbOfSale": opt(parse_dollar(&r[7])), "comm": opt(parse_dollar(&r[8])),
                "gain": opt(parse_dollar(&r[9])), "sfl": opt(sfl), "over": over,
                "acbDelta": opt(parse_dollar(&r[11])), "newAcb": opt(parse_dollar(&r[12])), "acbPerShare": opt(parse_dollar(&r[13])),
            })
        })
        .collect();
    // footer: label cell "Total\n2019\n2020", value cell "$x\n$y\n$z"
    let labels: Vec<&str> = t.footer.get(8).map(|s| s.lines().collect()).unwrap_or_default();
    let vals: Vec<&str> = t.footer.get(9).map(|s| s.lines().collect()).unwrap_or_default();
    let total = vals.first().and_then(|v| parse_dollar(v));
    let mut years = Vec::new();
    for (l, v) in labels.iter().zip(vals.iter()).skip(1) {
        years.push(json!([l.trim().parse::<i64>().unwrap_or(-1), opt(parse_dollar(v))]));
    }
    json!({"rows": rows, "total": opt(total), "years": years, "errors": t.errors.iter().map(|e| clean(e)).collect::<Vec<_>>(),
           "errDays": t.errors.iter().flat_map(|e| days_in_text(e)).collect::<Vec<_>>(), "notes": t.notes.len()})
}

fn agg_table(t: &RenderTable) -> Value {
    let mut years = Vec::new();
    let mut total = None;
    for r in &t.rows {
        if r[0] == "Since inception" {
            total = parse_dollar(&r[1]);
        } else {
            years.push(json!([r[0].trim().parse::<i64>().unwrap_or(-1), opt(parse_dollar(&r[1]))]));
        }
    }
    json!({"years": years, "total": opt(total)})
}

fn costs_table(t: &RenderTable, yearly: bool) -> Value {
    let off = if yearly { 1 } else { 0 };
    let secs: Vec<String> = t.header.iter().skip(2 + off).cloned().collect();
    let rows: Vec<Value> = t
        .rows
        .iter()
        .map(|r| {
            json!({"year": if yearly { r[0].parse::<i64>().unwrap_or(-1) } else { 0 }, "day": parse_day(&r[off]),
                   "total": opt(parse_dollar(&r[1 + off])),
                   "vals": r.iter().skip(2 + off).map(|c| opt(parse_dollar(c))).collect::<Vec<_>>()})
        })
        .collect();
    json!({"secs": secs, "rows": rows, "notes": t.notes.iter().map(|n| clean(n)).collect::<Vec<_>>()})
}

pub fn model_json(r: &AppRenderResult) -> Value {
    let mut secs: Vec<(&String, &RenderTable)> = r.security_tables.iter().collect();
    secs.sort_by(|a, b| a.0.cmp(b.0));
    let tables: Vec<Value> = secs
        .iter()
        .map(|(s, t)| {
            let mut v = sec_table(t);
            v["sec"] = json!(s);
            v
        })
        .collect();
    let costs = match &r.costs_tables {
        Some(c) => json!({"has": true, "total": costs_table(&c.total, false), "yearly": costs_table(&c.yearly, true)}),
        None => json!({"has": false}),
    };
    json!({"secs": tables, "agg": agg_table(&r.aggregate_gains_table), "costs": costs})
}

pub fn report_record(case: &Case) -> Value {
    let segments = ledger_segments(case);
    let full = render(case, true, true);
    let rounded = render(case, false, true);
    let mut rec = json!({"id": case.id, "tags": case.tags, "segments": segments});
    match (full, rounded) {
        (Ok(f), Ok(r)) => {
            rec["status"] = json!("ok");
            rec["msg"] = json!("");
            rec["full"] = model_json(&f);
            rec["rounded"] = model_json(&r);
            // visibility of bookkeeping errors in the writers
            let mut vis = Vec::new();
            let text = written(case, false);
            let csv = written(case, true);
            let dirw = written_dir(case);
            let mut secs: Vec<(&String, &RenderTable)> = f.security_tables.iter().collect();
            secs.sort_by(|a, b| a.0.cmp(b.0));
            for (sec, t) in secs {
                for e in &t.errors {
                    let key: String = e.lines().next().unwrap_or("").chars().take(60).collect();
                    let shown = |w: &Result<(String, String), (String, String)>| match w {
                        Ok((o, er)) => o.contains(&key) || er.contains(&key),
                        Err(_) => false,
                    };
                    vis.push(json!({"sec": sec, "text": shown(&text), "csv": shown(&csv), "dir": shown(&dirw)}));
                }
            }
            rec["visible"] = json!(vis);
            rec["writerPanic"] = json!(text.is_err() || csv.is_err() || dirw.is_err());
        }
        (Err((st, e)), _) | (_, Err((st, e))) => {
            let st = if e.starts_with("Found non-global split") { "skipped".to_string() } else { st };
            rec["status"] = json!(st);
            rec["msg"] = json!(clean(&e));
        }
    }
    rec
}
