// The repository's own `acb` main, byte for byte, linked against the freshly built library.
include!("/repo/src/bin/acb.rs");
