//! Fault enumeration for property C14: kill the real cache write at every byte offset (RLIMIT_FSIZE:
//! the kernel accepts exactly k bytes, the next write raises SIGXFSZ) and at every step boundary
//! (crashfs.so, an LD_PRELOAD interposer that also records the system-call trace of the write
//! procedure), then let a fresh loader look up every date over the surviving directory.

use std::path::{Path, PathBuf};
use std::process::Command;

use serde_json::{json, Value};

use crate::model::*;
use crate::rates::{rates_segment_in, RatesCase};

fn copy_dir(from: &Path, to: &Path) {
    let _ = std::fs::remove_dir_all(to);
    std::fs::create_dir_all(to).unwrap();
    if let Ok(rd) = std::fs::read_dir(from) {
        for e in rd.flatten() {
            let _ = std::fs::copy(e.path(), to.join(e.file_name()));
        }
    }
}

fn read_syslog(p: &Path) -> Vec<Value> {
    std::fs::read_to_string(p)
        .unwrap_or_default()
        .lines()
        .filter_map(|l| {
            let t: Vec<&str> = l.split(' ').collect();
            if t.len() == 3 {
                Some(json!({"op": t[0], "name": t[1], "n": t[2].parse::<i64>().unwrap_or(0)}))
            } else {
                None
            }
        })
        .collect()
}

/// child: perform the downloading run of `case` over `dir` (optionally under a file size limit)
pub fn child_main(case_path: &str, dir: &str) {
    if let Ok(k) = std::env::var("CRASH_FSIZE") {
        let k: u64 = k.parse().unwrap();
        let lim = libc::rlimit { rlim_cur: k, rlim_max: k };
        unsafe {
            libc::setrlimit(libc::RLIMIT_FSIZE, &lim);
        }
    }
    let case: RatesCase = serde_json::from_str(&std::fs::read_to_string(case_path).unwrap()).unwrap();
    let _ = rates_segment_in(&case, Path::new(dir));
}

pub struct CrashPlan {
    pub id: String,
    pub cal: Vec<(i64, String)>,
    pub old_today: Option<i64>, // a previous run left a cache written on that day
    pub new_today: i64,         // the run whose write is interrupted
    pub lookup_day: i64,        // the date whose look-up makes the interrupted run download
    pub check_today: i64,       // date of the run after the crash
    pub every_byte: bool,
}

/// all crash records for one plan
pub fn crash_records(plan: &CrashPlan, scratch: &Path, exe: &Path, interposer: &Path) -> Vec<Value> {
    let base = scratch.join(format!("crash_{}", plan.id));
    let _ = std::fs::remove_dir_all(&base);
    std::fs::create_dir_all(&base).unwrap();
    let pre = base.join("pre");
    std::fs::create_dir_all(&pre).unwrap();
    let mk = |today: i64, d: i64, force: bool| RatesCase {
        id: plan.id.clone(),
        cal: plan.cal.clone(),
        events: vec![json!({"ev": "run", "today": today, "todayPub": false, "force": force}), json!({"ev": "lookup", "d": d})],
        cache: "csv".into(),
        tags: json!({}),
    };
    // the cache as an earlier, uninterrupted run left it
    if let Some(t0) = plan.old_today {
        let _ = rates_segment_in(&mk(t0, t0 - 3, false), &pre);
    }
    let writer_case = mk(plan.new_today, plan.lookup_day, true);
    let case_path = base.join("writer_case.json");
    std::fs::write(&case_path, serde_json::to_string(&writer_case).unwrap()).unwrap();
    let run_child = |dir: &Path, envs: &[(&str, String)]| -> Option<i32> {
        let mut c = Command::new(exe);
        c.arg("cache-child").arg("--case").arg(&case_path).arg("--dir").arg(dir);
        c.env("LD_PRELOAD", interposer);
        for (k, v) in envs {
            c.env(k, v);
        }
        c.stdout(std::process::Stdio::null()).stderr(std::process::Stdio::null());
        c.status().ok().and_then(|s| s.code())
    };
    // reference run: the full system-call trace and the number of bytes written
    let refdir = base.join("ref");
    copy_dir(&pre, &refdir);
    let log = base.join("sys.log");
    let _ = std::fs::remove_file(&log);
    run_child(&refdir, &[("CRASHFS_LOG", log.to_string_lossy().to_string())]);
    let sys = read_syslog(&log);
    let total: i64 = sys.iter().filter(|e| e["op"] == "write").map(|e| e["n"].as_i64().unwrap_or(0)).sum();
    let nwrites = sys.iter().filter(|e| e["op"] == "write").count();
    // crash points
    let mut points: Vec<(String, Vec<(&str, String)>)> = Vec::new();
    let offsets: Vec<i64> = if plan.every_byte {
        (0..=total).collect()
    } else {
        // every offset of the first and last 80 bytes, and 3 bytes either side of every row boundary
        let text = std::fs::read_to_string(refdir.join(format!("rates-{}.csv", date_of(plan.lookup_day).year()))).unwrap_or_default();
        let mut v: Vec<i64> = (0..=80.min(total)).collect();
        v.extend((total - 80).max(0)..=total);
        let mut pos = 0i64;
        for line in text.split_inclusive('\n') {
            pos += line.len() as i64;
            for k in -3..=3 {
                if pos + k >= 0 && pos + k <= total {
                    v.push(pos + k);
                }
            }
            // and inside the rate of every 7th row
            if (pos / 7) % 7 == 0 && line.len() > 4 {
                v.push(pos - 3);
            }
        }
        v.sort();
        v.dedup();
        v
    };
    for k in offsets {
        points.push((format!("byte:{}", k), vec![("CRASH_FSIZE", k.to_string())]));
    }
    for (op, n) in [("open", 1usize), ("write", 1), ("write", nwrites.max(1)), ("fsync", 1), ("close", 1), ("rename", 1)] {
        for when in ["before", "after"] {
            points.push((format!("step:{}:{}:{}", op, n, when), vec![("CRASHFS_EXIT_AT", format!("{}:{}:{}", op, n, when))]));
        }
    }
    // the look-ups after the crash: every day of the written range and a little beyond
    let lo = plan.cal.first().map(|c| c.0).unwrap_or(plan.new_today - 30);
    let mut events = vec![json!({"ev": "run", "today": plan.check_today, "todayPub": false, "force": false})];
    let mut d = lo.max(plan.new_today - 45);
    while d < plan.check_today {
        events.push(json!({"ev": "lookup", "d": d}));
        d += 1;
    }
    let mut out = Vec::new();
    for (label, envs) in points {
        let dir = base.join("work");
        copy_dir(&pre, &dir);
        let code = run_child(&dir, &envs);
        let files: Vec<String> = std::fs::read_dir(&dir).map(|rd| rd.flatten().map(|e| e.file_name().to_string_lossy().to_string()).collect()).unwrap_or_default();
        // a fresh process over the surviving directory; each look-up in its own run so that a re-download
        // triggered by one date does not repair the cache for the next
        let mut lookups = Vec::new();
        for ev in events.iter().skip(1) {
            let probe = base.join("probe");
            copy_dir(&dir, &probe);
            let c = RatesCase { id: plan.id.clone(), cal: plan.cal.clone(), events: vec![events[0].clone(), ev.clone()], cache: "csv".into(), tags: json!({}) };
            let seg = rates_segment_in(&c, &probe);
            lookups.push(seg["events"][1].clone());
        }
        out.push(json!({"id": format!("{}@{}", plan.id, label), "crash": label, "exit": code.unwrap_or(-1), "files": files, "sys": sys, "total": total,
                        "cal": plan.cal.iter().map(|(d, q)| json!([d, dj(&q.parse::<rust_decimal::Decimal>().unwrap_or_default()), date_of(*d).year() >= 2017])).collect::<Vec<_>>(),
                        "today": plan.check_today, "lookups": lookups}));
    }
    let _ = std::fs::remove_dir_all(&base);
    out
}

pub fn plans(seed: u64, thorough: bool) -> Vec<CrashPlan> {
    use rand::{Rng, SeedableRng};
    let mut rng = rand::rngs::StdRng::seed_from_u64(seed ^ 0xc14);
    let mut v = Vec::new();
    let n = if thorough { 6 } else { 2 };
    for i in 0..n {
        // a calendar of business days from Jan 2 of a year for `len` days
        let year = [2018, 2022, 2016, 2024, 2019, 2021][i % 6];
        let jan1 = day_of(time::Date::from_calendar_date(year, time::Month::January, 1).unwrap());
        let len: i64 = if i == 0 { 14 } else if thorough { [60, 200, 364, 120, 30][i % 5] } else { 75 };
        let mut cal = Vec::new();
        for d in jan1..(jan1 + len) {
            let wd = date_of(d).weekday().number_days_from_monday();
            if wd < 5 && !rng.gen_bool(0.05) {
                let noon = year < 2017;
                let q = if noon { rust_decimal::Decimal::new(rng.gen_range(120000..145000), 5) } else { rust_decimal::Decimal::new(rng.gen_range(68000..83000), 5) };
                cal.push((d, q.to_string()));
            }
        }
        let new_today = jan1 + len;
        v.push(CrashPlan {
            id: format!("crash-{}-{}", seed, i),
            cal,
            old_today: if i % 2 == 1 { Some(jan1 + len / 2) } else { None },
            new_today,
            lookup_day: new_today - 2,
            check_today: new_today + 1,
            every_byte: i == 0 || thorough && len <= 60,
        });
    }
    v
}

pub fn interposer_path() -> PathBuf {
    PathBuf::from(concat!(env!("CARGO_MANIFEST_DIR"), "/../interpose/crashfs.so"))
}
