//! Property C05: abstract front-end inputs composed by TLC (module MC_FrontEnd: a header class, row
//! classes, a value class, options, an opening-position class) or drawn at random are instantiated
//! as concrete bytes and run through the front ends: the real `acb` binary, the library entry point
//! the web UI uses (parse_initial_status + run_acb_app_to_writer with in-memory buffers), and - for
//! byte-level damage - `tx-export-convert` and `etrade-plan-pdf-tx-extract`.  Recorded: how the run
//! ended (exit status / signal / time-out / panic) and what its message attributes the problem to.

use std::panic::{catch_unwind, AssertUnwindSafe};
use std::path::Path;
use std::str::FromStr;

use acb::app::input_parse::parse_initial_status;
use acb::app::outfmt::text::TextWriter;
use acb::app::run_acb_app_to_writer;
use acb::fx::io::testlib::new_test_rate_loader;
use acb::portfolio::io::tx_csv::TxCsvParseOptions;
use acb::util::rw::{DescribedReader, WriteHandle};
use rust_decimal::Decimal;
use serde_json::{json, Value};

use crate::ledger::{clean, panic_text};
use crate::model::*;
use crate::proc::{exe_dir, run_proc};

const HEADER: &str = "security,trade date,settlement date,action,shares,amount/share,commission,currency,exchange rate,commission currency,commission exchange rate,superficial loss,split ratio,affiliate,memo";

/// concrete numbers of a value class: shares, low / mid / high price, commission, exchange rate
struct Vals {
    s: Decimal,
    lo: Decimal,
    p: Decimal,
    hi: Decimal,
    c: Decimal,
    r: Decimal,
}

fn d(s: &str) -> Decimal {
    Decimal::from_str(s).unwrap()
}

fn vals(cls: &str) -> Vals {
    match cls {
        // the largest values of the practical range: magnitude below 10^12, ten decimal places
        "max" => Vals { s: d("999999999999"), lo: d("1"), p: d("500000000000.5"), hi: d("999999999999.9999999999"), c: d("99999.99"), r: d("1.3") },
        "maxdeep" => Vals { s: d("999999999999.9999999999"), lo: d("0.0000000001"), p: d("999999999999.9999999998"), hi: d("999999999999.9999999999"), c: d("999999999999.9999999999"), r: d("999999999999.9999999999") },
        "tiny" => Vals { s: d("0.0000000001"), lo: d("0.0000000001"), p: d("0.0000000002"), hi: d("0.0000000003"), c: d("0"), r: d("0.0000000001") },
        "deep" => Vals { s: d("3.3333333333"), lo: d("3.3333333333"), p: d("7.7777777777"), hi: d("9.9999999999"), c: d("0.0000000001"), r: d("1.2345678901") },
        "mixed" => Vals { s: d("999999999999.9999999999"), lo: d("0.0000000001"), p: d("0.0000000002"), hi: d("0.0000000003"), c: d("0.0000000001"), r: d("0.0000000001") },
        "thirds" => Vals { s: d("3"), lo: d("0.0000000001"), p: d("0.0000000002"), hi: d("1"), c: d("0"), r: d("1") },
        _ => Vals { s: d("10"), lo: d("10"), p: d("12.5"), hi: d("15"), c: d("1.99"), r: d("1.3") },
    }
}

fn part(x: Decimal, n: i64) -> Decimal {
    let q = (x / Decimal::from(n)).round_dp_with_strategy(10, rust_decimal::RoundingStrategy::ToZero);
    if q.is_zero() {
        x
    } else {
        q
    }
}

fn date(day: i64) -> String {
    date_str(day)
}

/// one CSV line for a row class; `day` is the trade day (settlement two days later)
fn row_line(cls: &str, day: i64, v: &Vals) -> String {
    let (td, sd) = (date(day), date(day + 2));
    let n = |x: &Decimal| x.normalize().to_string();
    // security,trade date,settlement date,action,shares,amount/share,commission,currency,exchange rate,commission currency,commission exchange rate,superficial loss,split ratio,affiliate,memo
    let line = |sec: &str, td: &str, sd: &str, act: &str, sh: &str, pr: &str, c: &str, cur: &str, r: &str, sfl: &str, ratio: &str, af: &str| {
        format!("{sec},{td},{sd},{act},{sh},{pr},{c},{cur},{r},,,{sfl},{ratio},{af},{cls}")
    };
    let half = part(v.s, 2);
    let third = part(v.s, 3);
    match cls {
        // ---- valid rows
        "buy" => line("FOO", &td, &sd, "Buy", &n(&v.s), &n(&v.p), &n(&v.c), "CAD", "", "", "", ""),
        "buy-hi" => line("FOO", &td, &sd, "Buy", &n(&third), &n(&v.hi), &n(&v.c), "CAD", "", "", "", ""),
        "buy-usd" => line("FOO", &td, &sd, "Buy", &n(&v.s), &n(&v.p), &n(&v.c), "USD", &n(&v.r), "", "", ""),
        "buy-af" => line("FOO", &td, &sd, "Buy", &n(&v.s), &n(&v.p), &n(&v.c), "CAD", "", "", "", "B"),
        "buy-reg" => line("FOO", &td, &sd, "Buy", &n(&v.s), &n(&v.p), &n(&v.c), "CAD", "", "", "", "(R)"),
        "buy-bar" => line("BAR", &td, &sd, "Buy", &n(&v.s), &n(&v.p), &n(&v.c), "CAD", "", "", "", ""),
        "sell-gain" => line("FOO", &td, &sd, "Sell", &n(&half), &n(&v.hi), &n(&v.c), "CAD", "", "", "", ""),
        "sell-loss" => line("FOO", &td, &sd, "Sell", &n(&half), &n(&v.lo), &n(&v.c), "CAD", "", "", "", ""),
        "sell-loss-third" => line("FOO", &td, &sd, "Sell", &n(&third), &n(&v.lo), "0", "CAD", "", "", "", ""),
        "sell-usd" => line("FOO", &td, &sd, "Sell", &n(&half), &n(&v.lo), &n(&v.c), "USD", &n(&v.r), "", "", ""),
        "sell-all" => line("FOO", &td, &sd, "Sell", &n(&v.s), &n(&v.hi), &n(&v.c), "CAD", "", "", "", ""),
        "sell-af" => line("FOO", &td, &sd, "Sell", &n(&v.s), &n(&v.lo), &n(&v.c), "CAD", "", "", "", "B"),
        "sell-sfl" => line("FOO", &td, &sd, "Sell", &n(&half), &n(&v.lo), "0", "CAD", "", &format!("-{}", n(&v.lo)), "", ""),
        "sell-sfl-forced" => line("FOO", &td, &sd, "Sell", &n(&half), &n(&v.lo), "0", "CAD", "", &format!("-{}!", n(&v.lo)), "", ""),
        "sell-sfl-zero" => line("FOO", &td, &sd, "Sell", &n(&half), &n(&v.lo), "0", "CAD", "", "0", "", ""),
        "sell-sfl-zero-forced" => line("FOO", &td, &sd, "Sell", &n(&half), &n(&v.lo), "0", "CAD", "", "0!", "", ""),
        "roc" => line("FOO", &td, &sd, "RoC", "", &n(&v.lo), "", "CAD", "", "", "", ""),
        "sfla" => line("FOO", &td, &sd, "SfLA", "1", &n(&v.lo), "", "", "", "", "", ""),
        "split" => line("FOO", &td, &sd, "Split", "", "", "", "", "", "", "2-for-1", ""),
        "split-rev" => line("FOO", &td, &sd, "Split", "", "", "", "", "", "", "1-for-3", ""),
        "split-third" => line("FOO", &td, &sd, "Split", "", "", "", "", "", "", "1.0-for-3.0", ""),
        "year-1900" => line("FOO", "1900-01-02", "1900-01-04", "Buy", &n(&v.s), &n(&v.p), &n(&v.c), "CAD", "", "", "", ""),
        "year-2100" => line("FOO", "2100-12-28", "2100-12-30", "Sell", &n(&third), &n(&v.p), &n(&v.c), "CAD", "", "", "", ""),
        // ---- rows that are refused when the file is read (attributed to file and row)
        "bad-date" => line("FOO", "2020-13-45", &sd, "Buy", &n(&v.s), &n(&v.p), "0", "CAD", "", "", "", ""),
        "bad-date-fmt" => line("FOO", "01/02/2020", "01/04/2020", "Buy", &n(&v.s), &n(&v.p), "0", "CAD", "", "", "", ""),
        "bad-number" => line("FOO", &td, &sd, "Buy", "12x", &n(&v.p), "0", "CAD", "", "", "", ""),
        "bad-price" => line("FOO", &td, &sd, "Buy", &n(&v.s), "1,000.5", "0", "CAD", "", "", "", ""),
        "exp-number" => line("FOO", &td, &sd, "Buy", "1e3", &n(&v.p), "0", "CAD", "", "", "", ""),
        "unknown-action" => line("FOO", &td, &sd, "Hold", &n(&v.s), &n(&v.p), "0", "CAD", "", "", "", ""),
        "blank-action" => line("FOO", &td, &sd, "", &n(&v.s), &n(&v.p), "0", "CAD", "", "", "", ""),
        "blank-security" => line("", &td, &sd, "Buy", &n(&v.s), &n(&v.p), "0", "CAD", "", "", "", ""),
        "blank-shares" => line("FOO", &td, &sd, "Buy", "", &n(&v.p), "0", "CAD", "", "", "", ""),
        "blank-dates" => line("FOO", "", "", "Buy", &n(&v.s), &n(&v.p), "0", "CAD", "", "", "", ""),
        "short-row" => format!("FOO,{td},{sd},Buy,{}", n(&v.s)),
        "long-row" => format!("{},extra,cells", line("FOO", &td, &sd, "Buy", &n(&v.s), &n(&v.p), "0", "CAD", "", "", "", "")),
        "bad-sfl" => line("FOO", &td, &sd, "Sell", &n(&half), &n(&v.lo), "0", "CAD", "", "abc", "", ""),
        "pos-sfl" => line("FOO", &td, &sd, "Sell", &n(&half), &n(&v.lo), "0", "CAD", "", "5", "", ""),
        "sfl-on-buy" => line("FOO", &td, &sd, "Buy", &n(&v.s), &n(&v.p), "0", "CAD", "", "-1", "", ""),
        "bad-split" => line("FOO", &td, &sd, "Split", "", "", "", "", "", "", "2-4-1", ""),
        "zero-split" => line("FOO", &td, &sd, "Split", "", "", "", "", "", "", "0-for-1", ""),
        "split-by-zero" => line("FOO", &td, &sd, "Split", "", "", "", "", "", "", "1-for-0", ""),
        "neg-shares" => line("FOO", &td, &sd, "Buy", "-5", &n(&v.p), "0", "CAD", "", "", "", ""),
        "zero-shares" => line("FOO", &td, &sd, "Buy", "0", &n(&v.p), "0", "CAD", "", "", "", ""),
        "neg-price" => line("FOO", &td, &sd, "Buy", &n(&v.s), "-1", "0", "CAD", "", "", "", ""),
        "neg-commission" => line("FOO", &td, &sd, "Buy", &n(&v.s), &n(&v.p), "-1", "CAD", "", "", "", ""),
        "neg-rate" => line("FOO", &td, &sd, "Buy", &n(&v.s), &n(&v.p), "0", "USD", "-1.3", "", "", ""),
        "zero-rate" => line("FOO", &td, &sd, "Buy", &n(&v.s), &n(&v.p), "0", "USD", "0", "", "", ""),
        "cad-rate" => line("FOO", &td, &sd, "Buy", &n(&v.s), &n(&v.p), "0", "CAD", "2", "", "", ""),
        "settle-before-trade" => line("FOO", &sd, &td, "Buy", &n(&v.s), &n(&v.p), "0", "CAD", "", "", "", ""),
        "quote-open" => format!("FOO,{td},{sd},Buy,{},{},0,CAD,,,,,,,\"unterminated", n(&v.s), n(&v.p)),
        "nul-byte" => format!("FOO,{td},{sd},Buy,{},{},0,CAD,,,,,,,a\0b", n(&v.s), n(&v.p)),
        // ---- rows that are refused when the security is processed (attributed to the security)
        "oversell" => line("ZED", &td, &sd, "Sell", &n(&v.s), &n(&v.p), "0", "CAD", "", "", "", ""),
        "roc-none" => line("ZED", &td, &sd, "RoC", "", &n(&v.lo), "", "CAD", "", "", "", ""),
        "sfla-reg" => line("FOO", &td, &sd, "SfLA", "1", &n(&v.lo), "", "", "", "", "", "(R)"),
        "roc-reg" => line("FOO", &td, &sd, "RoC", "", &n(&v.lo), "", "CAD", "", "", "", "(R)"),
        other => format!("FOO,{td},{sd},{other}"),
    }
}

fn header_text(cls: &str) -> String {
    match cls {
        "bom" => format!("\u{feff}{HEADER}"),
        "upper" => HEADER.to_uppercase(),
        "spaces" => HEADER.replace(',', " , "),
        "unknown-col" => format!("{HEADER},broker note"),
        "dup-col" => format!("{HEADER},shares"),
        "no-shares-col" => HEADER.replace(",shares,", ",quantity,"),
        "no-security-col" => HEADER.replace("security,", "ticker,"),
        "both-settle" => format!("{HEADER},date"),
        "blank" => String::new(),
        "garbage" => "\u{0}\u{1}\u{2}\"\"\"".to_string(),
        _ => HEADER.to_string(),
    }
}

pub fn csv_text(case: &Value) -> Vec<u8> {
    let v = vals(case["vals"].as_str().unwrap_or("plain"));
    let hdr = case["header"].as_str().unwrap_or("ok");
    let mut day = 18300i64; // 2020-02-08
    let mut out = header_text(hdr);
    let eol = if hdr == "crlf" { "\r\n" } else { "\n" };
    out.push_str(eol);
    for r in case["rows"].as_array().unwrap() {
        let cls = r.as_str().unwrap();
        out.push_str(&row_line(cls, day, &v));
        if matches!(hdr, "unknown-col" | "dup-col" | "both-settle") && !matches!(cls, "short-row" | "long-row" | "bad-price" | "quote-open") {
            out.push(',');
        }
        out.push_str(eol);
        day += 5;
    }
    let mut bytes = out.into_bytes();
    match hdr {
        "latin1" => bytes.extend_from_slice(b"FOO,2020-03-01,2020-03-03,Buy,1,1,0,CAD,,,,,,,caf\xe9\n"),
        "no-final-eol" => {
            bytes.pop();
        }
        _ => {}
    }
    bytes
}

fn opening_args(cls: &str, v: &Vals) -> Vec<String> {
    let n = |x: &Decimal| x.normalize().to_string();
    match cls {
        "none" => vec![],
        "valid" => vec![format!("FOO:{}:{}", n(&v.s), n(&(v.s * v.lo)))],
        "valid-zero" => vec!["FOO:0:0".into()],
        "two" => vec![format!("FOO:{}:{}", n(&v.s), n(&v.p)), "BAR:1:1".into()],
        "other-sec" => vec!["QUX:5:50".into()],
        "two-fields" => vec!["FOO:10".into()],
        "four-fields" => vec!["FOO:10:100:1".into()],
        "six-fields" => vec!["BAR:5:50:FOO:20:100".into()],
        "prefix-field" => vec!["TSX:FOO:20:100".into()],
        "empty-leading" => vec![":FOO:20:100".into()],
        "trailing-colon" => vec!["FOO:20:100:".into()],
        "empty-symbol" => vec![":10:100".into()],
        "bad-shares" => vec!["FOO:x:100".into()],
        "bad-acb" => vec!["FOO:10:1e".into()],
        "neg-shares" => vec!["FOO:-10:100".into()],
        "neg-acb" => vec!["FOO:10:-100".into()],
        "empty" => vec!["".into()],
        "huge" => vec!["FOO:99999999999999999999999999999999:1".into()],
        _ => vec![cls.to_string()],
    }
}

fn option_args(opts: &[String]) -> Vec<String> {
    let mut a = Vec::new();
    for o in opts {
        match o.as_str() {
            "summarize" => a.extend(["--summarize-before".to_string(), "2020-03-01".to_string()]),
            "summarize-early" => a.extend(["--summarize-before".to_string(), "1999-01-01".to_string()]),
            "summarize-late" => a.extend(["--summarize-before".to_string(), "2100-12-31".to_string()]),
            "summarize-bad" => a.extend(["--summarize-before".to_string(), "2020-02-30".to_string()]),
            "annual" => a.push("--summarize-annual-gains".to_string()),
            "total-costs" => a.push("--total-costs".to_string()),
            "full-values" => a.push("--print-full-values".to_string()),
            "date-fmt-iso" => a.extend(["--date-fmt".to_string(), "[year]-[month]-[day]".to_string()]),
            "date-fmt-us" => a.extend(["--date-fmt".to_string(), "[month]/[day]/[year]".to_string()]),
            "date-fmt-bad" => a.extend(["--date-fmt".to_string(), "[year]-[mon".to_string()]),
            "date-fmt-empty" => a.extend(["--date-fmt".to_string(), "".to_string()]),
            "verbose" => a.push("-v".to_string()),
            _ => {}
        }
    }
    a
}

/// what the message of a run attributes the problem to
fn attribution(text: &str, files: &[&str]) -> Value {
    let row = regex::Regex::new(r"(?i)\b(?:row|line|record)\s+(\d+)").unwrap();
    let first_row = regex::Regex::new(r"(?i)\brow\s+(\d+)").unwrap().captures(text).and_then(|c| c[1].parse::<i64>().ok()).unwrap_or(0);
    json!({
        "file": files.iter().any(|f| text.contains(f)),
        "row": row.is_match(text),
        "rownum": first_row,
        "security": text.contains("FOO") || text.contains("BAR") || text.contains("QUX") || text.contains("ZED"),
        "option": text.contains("--symbol-base"),
    })
}

/// the part of stderr that says what went wrong: from "panicked at" on when the run panicked (warnings printed
/// before it would otherwise fill the excerpt)
fn message_of(stderr: &str) -> String {
    let from = stderr.find("panicked at").map(|i| stderr[..i].rfind("thread").unwrap_or(i)).unwrap_or(0);
    stderr[from..].chars().take(300).collect()
}

fn how_ended(code: i32, timed_out: bool, stderr: &str) -> &'static str {
    if timed_out || code == 137 || code == 124 {
        "timeout"
    } else if stderr.contains("panicked at") || code == 101 {
        "panic"
    } else if code < 0 || code > 128 {
        "signal"
    } else if code == 0 {
        "ok"
    } else {
        "error"
    }
}

pub fn fe_record(case: &Value, n: u64, scratch: &Path) -> Value {
    let fe = case["fe"].as_str().unwrap_or("acb");
    let v = vals(case["vals"].as_str().unwrap_or("plain"));
    let bytes = match case.get("bytes").and_then(|b| b.as_array()) {
        Some(b) => b.iter().map(|x| x.as_u64().unwrap() as u8).collect(),
        None => csv_text(case),
    };
    let mut opts: Vec<String> = case["opts"].as_array().map(|a| a.iter().map(|x| x.as_str().unwrap().to_string()).collect()).unwrap_or_default();
    if fe == "web" {
        // the web UI offers only this option
        opts.retain(|o| o == "full-values");
    }
    let opening = opening_args(case["opening"].as_str().unwrap_or("none"), &v);
    let text_head: String = String::from_utf8_lossy(&bytes).chars().take(1500).collect();
    let mut rec = json!({"id": format!("fe-{}", n), "fe": fe, "header": case["header"], "rows": case["rows"], "vals": case["vals"], "opts": opts,
                         "opening": case["opening"], "kind": case.get("kind").cloned().unwrap_or(json!("product")), "input": clean(&text_head)});
    let obs = match fe {
        "web" => {
            // the web UI hands over strings: bytes that are not UTF-8 cannot be offered at all
            let content = String::from_utf8_lossy(&bytes).to_string();
            let full = opts.iter().any(|o| o == "full-values");
            let res = catch_unwind(AssertUnwindSafe(|| {
                let init = match parse_initial_status(&opening) {
                    Ok(i) => i,
                    Err(e) => return (false, String::new(), e),
                };
                let (loader, _c, _r) = new_test_rate_loader(false);
                let (out_h, out_buf) = WriteHandle::string_buff_write_handle();
                let (err_h, err_buf) = WriteHandle::string_buff_write_handle();
                let mut w = TextWriter::new(out_h);
                let r = async_std::task::block_on(run_acb_app_to_writer(
                    &mut w,
                    vec![DescribedReader::from_string("input.csv".to_string(), content.clone())],
                    init,
                    &TxCsvParseOptions::default(),
                    full,
                    false,
                    loader,
                    err_h,
                ));
                let o = out_buf.borrow().as_str().to_string();
                let e = err_buf.borrow().as_str().to_string();
                (r.is_ok(), o, e)
            }));
            match res {
                Ok((ok, out, err)) => {
                    let all = format!("{out}\n{err}");
                    json!({"end": if ok { "ok" } else { "error" }, "exit": if ok { 0 } else { 1 }, "report": out.contains("Transactions for") || out.contains("Aggregate Gains"),
                           "flagged": all.contains("[!]"), "message": clean(&err.chars().take(300).collect::<String>()), "says": !err.trim().is_empty(),
                           "attr": attribution(&all, &["input.csv"])})
                }
                Err(p) => json!({"end": "panic", "exit": 101, "report": false, "flagged": false, "message": clean(&panic_text(p)), "says": true, "attr": attribution("", &[])}),
            }
        }
        _ => {
            let dir = scratch.join(format!("fe{}", n));
            let _ = std::fs::create_dir_all(dir.join("home"));
            let path = dir.join("input.csv");
            std::fs::write(&path, &bytes).unwrap();
            let mut args = option_args(&opts);
            for o in &opening {
                args.push("-b".into());
                args.push(o.clone());
            }
            if opts.iter().any(|o| o == "outdir") {
                args.push("-d".into());
                args.push(dir.join("out").to_string_lossy().to_string());
            }
            args.push(path.to_string_lossy().to_string());
            let exe = match fe {
                "txconv" => "txconv-app",
                "etrade" => "etrade-app",
                _ => "acb-app",
            };
            if fe == "etrade" {
                // the extractor takes extracted text as .txt
                let p2 = dir.join("input.txt");
                std::fs::write(&p2, &bytes).unwrap();
                args = vec![p2.to_string_lossy().to_string()];
            } else if fe == "txconv" {
                let p2 = dir.join("input.xlsx");
                std::fs::write(&p2, &bytes).unwrap();
                args = vec![p2.to_string_lossy().to_string()];
            }
            let p = run_proc(&exe_dir().join(exe), &args, &dir.join("home"), None, None, 30);
            let stdout = String::from_utf8_lossy(&p.stdout).to_string();
            let stderr = String::from_utf8_lossy(&p.stderr).to_string();
            let all = format!("{stdout}\n{stderr}");
            let wrote = std::fs::read_dir(dir.join("out")).map(|d| d.count() > 0).unwrap_or(false);
            let _ = std::fs::remove_dir_all(&dir);
            json!({"end": how_ended(p.code, p.timed_out, &stderr), "exit": p.code,
                   "report": stdout.contains("Transactions for") || stdout.contains("Aggregate Gains") || wrote || (fe != "acb" && p.code == 0 && !stdout.trim().is_empty())
                             || (opts.iter().any(|o| o.starts_with("summarize")) && p.code == 0),
                   "flagged": all.contains("[!]") || all.contains("Error in "), "message": clean(&message_of(&stderr)), "says": !stderr.trim().is_empty(),
                   "attr": attribution(&all, &["input.csv", "input.txt", "input.xlsx"])})
        }
    };
    rec["obs"] = obs;
    rec
}

const VALID_ROWS: [&str; 23] = ["buy", "buy-hi", "buy-usd", "buy-af", "buy-reg", "buy-bar", "sell-gain", "sell-loss", "sell-loss-third", "sell-usd", "sell-all", "sell-af",
    "sell-sfl", "sell-sfl-forced", "roc", "sfla", "split", "split-rev", "oversell", "roc-none", "split-third", "sell-sfl-zero", "sell-sfl-zero-forced"];
const VAL_CLASSES: [&str; 7] = ["plain", "max", "maxdeep", "tiny", "deep", "mixed", "thirds"];

/// seeded random inputs: (a) longer products of valid row classes over every value class and option
/// set, (b) byte-level damage of a valid file, for all four front ends
pub fn gen_fe_case(seed: u64, k: u64) -> Value {
    use rand::{Rng, SeedableRng};
    let mut rng = rand::rngs::StdRng::seed_from_u64(seed.wrapping_mul(15485863).wrapping_add(k));
    let nrows = rng.gen_range(2..9);
    let rows: Vec<&str> = (0..nrows).map(|i| if i == 0 { "buy" } else { VALID_ROWS[rng.gen_range(0..VALID_ROWS.len())] }).collect();
    let vcls = VAL_CLASSES[rng.gen_range(0..VAL_CLASSES.len())];
    let all_opts = ["annual", "total-costs", "full-values", "outdir", "verbose"];
    let mut opts: Vec<&str> = all_opts.iter().filter(|_| rng.gen_bool(0.25)).cloned().collect();
    if rng.gen_bool(0.4) {
        opts.push(["summarize", "summarize-early", "summarize-late"][rng.gen_range(0..3)]);
    }
    let opening = ["none", "none", "valid", "valid-zero", "two", "other-sec"][rng.gen_range(0..6)];
    let mut case = json!({"id": "gen", "kind": "random", "fe": if k % 3 == 0 { "web" } else { "acb" }, "header": "ok", "rows": rows, "vals": vcls, "opts": opts, "opening": opening});
    if k % 4 == 3 {
        // byte-level damage
        let mut bytes = damage(csv_text(&case), &mut rng);
        let fe = ["acb", "web", "etrade", "txconv"][rng.gen_range(0..4)];
        if fe == "etrade" {
            // damage a valid benefit confirmation instead
            let base = crate::etrade::rsu_text(1, 18400, Decimal::from(10), Decimal::from(100), Decimal::from(4), Decimal::new(1015, 1), Decimal::new(417, 2)).into_bytes();
            bytes = damage(base, &mut rng);
        } else if fe == "txconv" {
            // a valid Questrade export with damaged cells, written as a real .xlsx
            let qt = crate::qt::gen_qt_case(seed, k);
            let mut rg = crate::qt::build_range(qt["rows"].as_array().unwrap(), qt["layout"].as_u64().unwrap(), rng.gen_bool(0.5));
            let (h, w) = rg.get_size();
            for _ in 0..rng.gen_range(1..5) {
                let pos = (rng.gen_range(0..h.max(1)) as u32, rng.gen_range(0..w.max(1)) as u32);
                let v = match rng.gen_range(0..8) {
                    0 => office::DataType::Empty,
                    1 => office::DataType::String("abc".into()),
                    2 => office::DataType::String("".into()),
                    3 => office::DataType::Float(-1e300),
                    4 => office::DataType::Float(f64::NAN),
                    5 => office::DataType::String("2021-13-45 12:00:00 AM".into()),
                    6 => office::DataType::Float(1e-300),
                    _ => office::DataType::String("9".repeat(40)),
                };
                rg.set_value(pos, v);
            }
            let tmp = std::env::temp_dir().join(format!("acbverif_fe_{}_{}_{}.xlsx", std::process::id(), seed, k));
            crate::qt::write_range_xlsx(&rg, &tmp).unwrap();
            bytes = std::fs::read(&tmp).unwrap_or_default();
            let _ = std::fs::remove_file(&tmp);
            if rng.gen_bool(0.2) {
                bytes = damage(bytes, &mut rng);
            }
        }
        case["kind"] = json!("bytes");
        case["bytes"] = json!(bytes);
        case["fe"] = json!(fe);
    }
    case
}

fn damage(mut bytes: Vec<u8>, rng: &mut rand::rngs::StdRng) -> Vec<u8> {
    use rand::Rng;
    let nmut = rng.gen_range(1..6);
    for _ in 0..nmut {
        if bytes.is_empty() {
            break;
        }
        let i = rng.gen_range(0..bytes.len());
        match rng.gen_range(0..6) {
            0 => bytes[i] = rng.gen(),
            1 => {
                bytes.remove(i);
            }
            2 => {
                let pool = b",\"\n\r-.0e9;\t\0\xff";
                bytes.insert(i, pool[rng.gen_range(0..pool.len())]);
            }
            3 => bytes.truncate(i),
            4 => {
                let j = rng.gen_range(0..bytes.len());
                bytes.swap(i, j);
            }
            _ => {
                let chunk: Vec<u8> = bytes[i..(i + 20).min(bytes.len())].to_vec();
                for (o, b) in chunk.into_iter().enumerate() {
                    bytes.insert(i + o, b);
                }
            }
        }
    }
    bytes
}

/// every confirmation layout of the repository's samples with each single line removed, and with the
/// digits of each single line replaced: a lost or garbled row of the extracted text
pub fn etrade_line_cases() -> Vec<Value> {
    let base = "/repo/tests/data/etrade_scenarios";
    let mut texts: Vec<(String, String)> = Vec::new();
    for rel in ["2022_sample/pypdf/espp.txt", "2022_sample/pypdf/rsu.txt", "2022_sample/pypdf/trade_conf_1.txt", "2024_with_manual_sells/pypdf/rsu_1.txt", "2024_with_manual_sells/pypdf/trade_conf_1.txt"] {
        if let Ok(t) = std::fs::read_to_string(format!("{base}/{rel}")) {
            texts.push((rel.to_string(), t));
        }
    }
    texts.push(("eso".to_string(), crate::etrade::eso_text(1, 18400, Decimal::from(10), Decimal::from(100), Decimal::from(4), Decimal::new(1015, 1), Decimal::new(417, 2))));
    let mut out = Vec::new();
    for (name, t) in &texts {
        let lines: Vec<&str> = t.lines().collect();
        for k in 0..lines.len() {
            if lines[k].trim().is_empty() {
                continue;
            }
            for mode in ["drop", "garble", "zero"] {
                let mut ls: Vec<String> = lines.iter().map(|s| s.to_string()).collect();
                if mode == "drop" {
                    ls.remove(k);
                } else {
                    if !ls[k].chars().any(|c| c.is_ascii_digit()) {
                        continue;
                    }
                    // "zero": every figure of the line becomes 0 (a sell-to-cover of 0.0000 shares, a price of $0.00)
                    let to = if mode == "zero" { '0' } else { 'x' };
                    ls[k] = ls[k].chars().map(|c| if c.is_ascii_digit() { to } else { c }).collect();
                }
                let bytes = ls.join("\n").into_bytes();
                out.push(json!({"id": "etl", "kind": "bytes", "fe": "etrade", "header": format!("{name}:{mode}:{k}"), "rows": [], "vals": "plain", "opts": [], "opening": "none", "bytes": bytes}));
            }
        }
    }
    out
}

/// a valid Questrade export (every activity kind once) with each single cell of its first rows
/// replaced by each of a few damaged values, written as real .xlsx files
pub fn qt_cell_cases(seed: u64) -> Vec<Value> {
    let mut out = Vec::new();
    for lay in [0u64, 3] {
        let qt = crate::qt::gen_qt_case(seed, 1);
        let rows: Vec<Value> = qt["rows"].as_array().unwrap().iter().take(12).cloned().collect();
        let base = crate::qt::build_range(&rows, lay, false);
        let (h, w) = base.get_size();
        for r in 0..h.min(9) {
            for c in 0..w {
                for (dk, dv) in [
                    ("empty", office::DataType::Empty),
                    ("text", office::DataType::String("abc".into())),
                    ("nan", office::DataType::Float(f64::NAN)),
                    ("date", office::DataType::String("2021-13-45 12:00:00 AM".into())),
                    ("neg", office::DataType::Float(-12.5)),
                ] {
                    let mut rg = base.clone();
                    rg.set_value((r as u32, c as u32), dv);
                    let tmp = std::env::temp_dir().join(format!("acbverif_qtc_{}_{}_{}_{}_{}.xlsx", std::process::id(), lay, r, c, dk));
                    if crate::qt::write_range_xlsx(&rg, &tmp).is_err() {
                        continue;
                    }
                    let bytes = std::fs::read(&tmp).unwrap_or_default();
                    let _ = std::fs::remove_file(&tmp);
                    out.push(json!({"id": "qtc", "kind": "bytes", "fe": "txconv", "header": format!("layout{lay}:r{r}:c{c}:{dk}"), "rows": [], "vals": "plain", "opts": [], "opening": "none", "bytes": bytes}));
                }
            }
        }
    }
    out
}
