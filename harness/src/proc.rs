//! Observation point O3: the real command-line programs (the repository's own `main`s, built by
//! this crate against the freshly built library), run as processes with HOME pointing at a scratch
//! directory.  Used for C09 (same input, same bytes, for every hash seed) and C05 (front ends).

use std::path::{Path, PathBuf};
use std::process::Command;

use serde_json::{json, Value};

use crate::model::*;

pub fn exe_dir() -> PathBuf {
    std::env::current_exe().unwrap().parent().unwrap().to_path_buf()
}
pub fn hashseed_so() -> PathBuf {
    PathBuf::from(concat!(env!("CARGO_MANIFEST_DIR"), "/../interpose/hashseed.so"))
}

pub struct ProcOut {
    pub code: i32,
    pub stdout: Vec<u8>,
    pub stderr: Vec<u8>,
    pub files: Vec<(String, Vec<u8>)>,
    pub timed_out: bool,
}

/// run `exe args` with HOME=home, optional hash seed, collecting the files written to `outdir`
pub fn run_proc(exe: &Path, args: &[String], home: &Path, seed: Option<u64>, outdir: Option<&Path>, timeout_s: u64) -> ProcOut {
    let mut c = Command::new("timeout");
    c.arg("-s").arg("KILL").arg(timeout_s.to_string()).arg(exe).args(args);
    c.env("HOME", home).env_remove("RUST_BACKTRACE").env("NO_COLOR", "1");
    if let Some(s) = seed {
        c.env("LD_PRELOAD", hashseed_so()).env("VERIF_HASH_SEED", s.to_string());
    }
    let out = c.output().expect("spawn");
    let mut files = Vec::new();
    if let Some(d) = outdir {
        if let Ok(rd) = std::fs::read_dir(d) {
            let mut names: Vec<PathBuf> = rd.flatten().map(|e| e.path()).collect();
            names.sort();
            for p in names {
                files.push((p.file_name().unwrap().to_string_lossy().to_string(), std::fs::read(&p).unwrap_or_default()));
            }
        }
    }
    let code = out.status.code().unwrap_or(-1);
    ProcOut { code, stdout: out.stdout, stderr: out.stderr, files, timed_out: code == 137 || code == -1 }
}

fn digest(p: &ProcOut) -> String {
    // FNV-1a over stdout and every output file (names included)
    let mut h: u64 = 0xcbf29ce484222325;
    let mut eat = |b: &[u8]| {
        for x in b {
            h ^= *x as u64;
            h = h.wrapping_mul(0x100000001b3);
        }
    };
    eat(&p.stdout);
    for (n, b) in &p.files {
        eat(n.as_bytes());
        eat(&[0]);
        eat(b);
    }
    eat(&p.code.to_le_bytes());
    format!("{:016x}", h)
}

pub fn write_case_files(case: &Case, dir: &Path) -> Vec<String> {
    std::fs::create_dir_all(dir).unwrap();
    let mut args = Vec::new();
    for (i, rows) in case.files.iter().enumerate() {
        let p = dir.join(format!("file{}.csv", i));
        let _ = rows;
        std::fs::write(&p, case.file_text(i)).unwrap();
        args.push(p.to_string_lossy().to_string());
    }
    for (sec, (n, c)) in &case.opening {
        args.push("-b".into());
        args.push(format!("{}:{}:{}", sec, n.text(), c.text()));
    }
    args
}

fn first_diff(a: &ProcOut, b: &ProcOut) -> Value {
    let snip = |x: &[u8], y: &[u8]| -> (String, String) {
        let k = x.iter().zip(y.iter()).position(|(p, q)| p != q).unwrap_or(x.len().min(y.len()));
        let lo = k.saturating_sub(60);
        let f = |z: &[u8]| String::from_utf8_lossy(&z[lo.min(z.len())..(k + 60).min(z.len())]).to_string();
        (f(x), f(y))
    };
    if a.stdout != b.stdout {
        let (x, y) = snip(&a.stdout, &b.stdout);
        return json!({"where": "stdout", "a": x, "b": y});
    }
    for ((n1, b1), (n2, b2)) in a.files.iter().zip(b.files.iter()) {
        if n1 != n2 {
            return json!({"where": "file names", "a": n1, "b": n2});
        }
        if b1 != b2 {
            let (x, y) = snip(b1, b2);
            return json!({"where": n1, "a": x, "b": y});
        }
    }
    json!({"where": "exit status or number of files", "a": a.code, "b": b.code})
}

/// C09: one record per (case, mode): the digests of the outputs under each hash seed
pub fn det_records(case: &Case, scratch: &Path, seeds: u64) -> Vec<Value> {
    let base = scratch.join(format!("det_{}", case.id.replace('/', "_")));
    let _ = std::fs::remove_dir_all(&base);
    let home = base.join("home");
    std::fs::create_dir_all(&home).unwrap();
    let file_args = write_case_files(case, &base.join("in"));
    let mut days: Vec<i64> = case.files.iter().flatten().map(|r| r.sd).collect();
    days.sort();
    let cut = days.get(days.len() / 2).cloned().unwrap_or(18000) + 1;
    let exe = exe_dir().join("acb-app");
    let modes: Vec<(&str, Vec<String>, bool)> = vec![
        ("tables", vec![], false),
        ("full-values+costs", vec!["--print-full-values".into(), "--total-costs".into()], false),
        ("csv-dir+costs", vec!["--total-costs".into()], true),
        ("summary", vec!["--summarize-before".into(), date_str(cut)], false),
        ("summary-annual", vec!["--summarize-before".into(), date_str(cut), "--summarize-annual-gains".into()], false),
    ];
    // two more inputs derived from the case: repeated recognised columns, and securities whose
    // names differ only in letter case
    let mut dup = case.clone();
    dup.hdr = case.files.iter().map(|_| 6).collect();
    let dup_args = write_case_files(&dup, &base.join("in_dup"));
    let mut cs = case.clone();
    for f in cs.files.iter_mut() {
        for r in f.iter_mut() {
            r.sec = match r.sec.as_str() {
                "FOO" => "Brk.b".to_string(),
                "BAR" => "BRK.B".to_string(),
                "AAA" => "Brk.b".to_string(),
                "BBB" => "BRK.B".to_string(),
                other => other.to_lowercase().replace("xyz.to", "brk.B"),
            };
        }
    }
    cs.opening = Default::default();
    let cs_args = write_case_files(&cs, &base.join("in_case"));
    // a third derived input: six more securities whose cost bases have 28 significant digits (a sale after a
    // split into thirds), so that the day totals of the cost tables depend on the order of addition
    let mut ld = case.clone();
    let d0 = days.first().cloned().unwrap_or(18000);
    let mk = |sec: &str, day: i64, act: &str, q: &str, p: &str, split: &str| Row {
        sec: sec.to_string(), td: day, sd: day, act: act.to_string(), af: String::new(), q: Num::S(q.into()), p: Num::S(p.into()), c: Num::S(if act == "Split" { "" } else { "0" }.into()),
        cur: String::new(), r: Num::S(String::new()), ccur: String::new(), rc: Num::S(String::new()), sfl: String::new(), split: split.to_string(), memo: String::new(),
    };
    let mut extra_rows = Vec::new();
    for i in 0..6i64 {
        let sec = format!("ZZ{}", i);
        extra_rows.push(mk(&sec, d0 + i, "Buy", "10", &format!("{}.37", 31 + 7 * i), ""));
        extra_rows.push(mk(&sec, d0 + 40, "Split", "", "", "1.0-for-3.0"));
        extra_rows.push(mk(&sec, d0 + 80 + i, "Sell", "1", "40", ""));
    }
    ld.files.push(extra_rows);
    ld.hdr = Vec::new();
    let ld_args = write_case_files(&ld, &base.join("in_ld"));
    let mut modes = modes;
    modes.push(("long-decimal-costs", vec!["--print-full-values".into(), "--total-costs".into()], false));
    modes.push(("repeated-columns", vec![], false));
    modes.push(("case-variant-securities", vec!["--total-costs".into()], false));
    let mut out = Vec::new();
    for (mode, extra, csvdir) in modes {
        let file_args = match mode {
            "long-decimal-costs" => ld_args.clone(),
            "repeated-columns" => dup_args.clone(),
            "case-variant-securities" => cs_args.clone(),
            _ => file_args.clone(),
        };
        let mut runs: Vec<ProcOut> = Vec::new();
        for s in 0..seeds {
            let od = base.join(format!("out_{}_{}", mode, s));
            let mut args = file_args.clone();
            args.extend(extra.iter().cloned());
            if csvdir {
                args.push("--csv-output-dir".into());
                args.push(od.to_string_lossy().to_string());
            }
            runs.push(run_proc(&exe, &args, &home, Some(s), if csvdir { Some(&od) } else { None }, 60));
        }
        let digests: Vec<String> = runs.iter().map(digest).collect();
        let differing = (1..runs.len()).find(|&k| digests[k] != digests[0]);
        let diff = match differing {
            Some(k) => {
                let mut d = first_diff(&runs[0], &runs[k]);
                d["seedA"] = json!(0);
                d["seedB"] = json!(k);
                d
            }
            None => json!({"where": "", "a": "", "b": "", "seedA": 0, "seedB": 0}),
        };
        let panicked = runs.iter().any(|r| String::from_utf8_lossy(&r.stderr).contains("panicked at"));
        out.push(json!({"id": case.id, "mode": mode, "seeds": seeds, "digests": digests, "exit": runs[0].code, "panicked": panicked,
                        "stdoutBytes": runs[0].stdout.len(), "files": runs[0].files.len(),
                        "diff": {"where": diff["where"], "a": crate::ledger::clean(&diff["a"].to_string()), "b": crate::ledger::clean(&diff["b"].to_string()),
                                 "seedA": diff["seedA"], "seedB": diff["seedB"]},
                        "input": {"files": case.files, "opening": case.opening}}));
    }
    let _ = std::fs::remove_dir_all(&base);
    out
}
